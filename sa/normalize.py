"""Source normalisation applied to the parsed modules before indexing, so that rules see one canonical shape:

1. constant propagation of private module-/class-level literal constants (`_ORDER_VALUE_DESCR = "value:descr"`,
   `_TEMPLATE = "%s.%s : %s"`, `_METRES_PER_FOOT = 0.3048`): loads of such names are replaced by the literal;
2. inlining of private helpers (`_name(...)`, `self._name(...)`) into their callers when the helper is a plain function
   (no generator, no recursion, no decorator other than staticmethod/classmethod) whose `return`s are in tail position.

Both are semantics-preserving rewrites of the AST that is analysed (nothing is executed).  They exist because
"extract a private helper" and "name a literal" are the most common behaviour-preserving refactorings; without them a
rule anchored in a public function would lose sight of code that merely moved into a helper.
"""
import ast
import copy

# helpers that rules use as anchors themselves: never inlined
KEEP = {"_index_unit_contains", "_repr_pretty_", "_get_vcs_version"}
MAX_ROUNDS = 3


def _is_literal(v):
    if isinstance(v, ast.Constant) and isinstance(v.value, (str, int, float, bool, type(None))):
        return True
    if isinstance(v, ast.UnaryOp) and isinstance(v.op, ast.USub) and isinstance(v.operand, ast.Constant):
        return True
    if isinstance(v, ast.Call) and isinstance(v.func, ast.Attribute) and v.func.attr == "compile" \
            and isinstance(v.func.value, ast.Name) and v.func.value.id == "re" and v.args \
            and all(_is_literal(a) for a in v.args) and not v.keywords:
        return True   # a pre-compiled pattern: `_X.search(s)` becomes `re.compile("...").search(s)`
    if isinstance(v, ast.Tuple) and v.elts and all(_is_literal(e) for e in v.elts):
        return True
    if isinstance(v, ast.Attribute) and isinstance(v.value, ast.Name) and v.value.id == "re" and v.attr.isupper():
        return True   # re.IGNORECASE etc. inside re.compile(...)
    return False


def propagate_constants(tree, modname=None):
    """replace loads of private literal constants by the literal (module level and class level); a public module-level literal
    that today's tree does not have (sa/api_reference.json) is treated like a private one"""
    consts = {}
    counts = {}
    known_globals = set(_reference().get("%s:globals" % modname, [])) if modname else None
    for node in tree.body:
        if isinstance(node, ast.Assign) and len(node.targets) == 1 and isinstance(node.targets[0], ast.Name):
            nm = node.targets[0].id
            counts[nm] = counts.get(nm, 0) + 1
            is_new = known_globals is not None and bool(known_globals) and nm not in known_globals and not nm.startswith("__")
            if (nm.startswith("_") or is_new) and _is_literal(node.value):
                consts[nm] = node.value
    for nm, c in counts.items():
        if c != 1:
            consts.pop(nm, None)
    cls_consts = {}
    for node in tree.body:
        if isinstance(node, ast.ClassDef):
            d = {}
            for sub in node.body:
                if isinstance(sub, ast.Assign) and len(sub.targets) == 1 and isinstance(sub.targets[0], ast.Name) \
                        and sub.targets[0].id.startswith("_") and _is_literal(sub.value):
                    d[sub.targets[0].id] = sub.value
            if d:
                cls_consts[node.name] = d
    if not consts and not cls_consts:
        return 0
    n = [0]

    class T(ast.NodeTransformer):
        def __init__(self):
            self.shadow = [set()]
            self.cls = [None]

        def visit_FunctionDef(self, node):
            bound = {a.arg for a in node.args.args + node.args.kwonlyargs}
            for sub in ast.walk(node):
                if isinstance(sub, ast.Name) and isinstance(sub.ctx, ast.Store):
                    bound.add(sub.id)
            self.shadow.append(bound)
            self.generic_visit(node)
            self.shadow.pop()
            return node

        def visit_ClassDef(self, node):
            self.cls.append(node.name)
            self.generic_visit(node)
            self.cls.pop()
            return node

        def visit_Name(self, node):
            if isinstance(node.ctx, ast.Load) and node.id in consts and not any(node.id in s for s in self.shadow):
                n[0] += 1
                return ast.copy_location(copy.deepcopy(consts[node.id]), node)
            return node

        def visit_Attribute(self, node):
            self.generic_visit(node)
            if isinstance(node.ctx, ast.Load) and isinstance(node.value, ast.Name) and node.value.id in ("self", "cls") and self.cls[-1]:
                d = cls_consts.get(self.cls[-1], {})
                if node.attr in d:
                    n[0] += 1
                    return ast.copy_location(copy.deepcopy(d[node.attr]), node)
            if isinstance(node.ctx, ast.Load) and isinstance(node.value, ast.Name) and node.value.id in cls_consts:
                d = cls_consts[node.value.id]
                if node.attr in d:
                    n[0] += 1
                    return ast.copy_location(copy.deepcopy(d[node.attr]), node)
            return node
    # do not rewrite the defining assignments themselves
    keep = {id(node.value) for node in tree.body if isinstance(node, ast.Assign)}
    T().visit(tree)
    return n[0]


# ------------------------------------------------------------------------------------------------ inlining

def _tail_returns_only(body):
    """all `return` statements of the block are in tail position (last statement, possibly inside the tail if/else)"""
    if not body:
        return True
    for st in body[:-1]:
        for sub in ast.walk(st):
            if isinstance(sub, ast.Return):
                return False
            if isinstance(sub, (ast.FunctionDef, ast.Lambda)):
                pass
    last = body[-1]
    if isinstance(last, ast.Return):
        return True
    if isinstance(last, ast.If):
        return _tail_returns_only(last.body) and _tail_returns_only(last.orelse)
    if isinstance(last, ast.Try) and not last.finalbody and not _contains_return(last.body):
        return all(_tail_returns_only(h.body) for h in last.handlers) and _tail_returns_only(last.orelse)
    for sub in ast.walk(last):
        if isinstance(sub, ast.Return):
            return False
    return True


def _ends_with_return(body):
    if not body:
        return False
    last = body[-1]
    if isinstance(last, ast.Return):
        return True
    if isinstance(last, ast.If) and last.orelse:
        return _ends_with_return(last.body) and _ends_with_return(last.orelse)
    if isinstance(last, ast.Try) and not last.finalbody and last.orelse:
        return all(_ends_with_return(h.body) or (h.body and isinstance(h.body[-1], ast.Raise)) for h in last.handlers) and _ends_with_return(last.orelse)
    return False


def _contains_return(stmts):
    for st in stmts:
        for sub in ast.walk(st):
            if isinstance(sub, ast.Return):
                return True
    return False


_TRYVAL = [0]


def _tailify(stmts, budget=None):
    """guard clauses -> nested if/else: the statements after an `if` that returns on some branch move into the branches that do
    not return, so that every `return` ends up in tail position (loops/try/with that return are left alone)"""
    budget = budget if budget is not None else [400]
    out = []
    for i, st in enumerate(stmts):
        if isinstance(st, ast.If) and _contains_return([st]):
            st = ast.copy_location(ast.If(test=st.test, body=_tailify(st.body, budget), orelse=_tailify(st.orelse, budget)), st)
            rest = stmts[i + 1:]
            if rest:
                budget[0] -= len(rest)
                if budget[0] < 0:
                    out.append(st)
                    out.extend(rest)
                    return out
                b_ret, e_ret = _ends_with_return(st.body), bool(st.orelse) and _ends_with_return(st.orelse)
                if b_ret and e_ret:
                    pass
                elif b_ret:
                    st.orelse = _tailify(list(st.orelse) + rest, budget)
                elif e_ret:
                    st.body = _tailify(list(st.body) + rest, budget)
                else:
                    st.body = _tailify(list(st.body) + copy.deepcopy(rest), budget)
                    st.orelse = _tailify(list(st.orelse) + rest, budget)
            out.append(st)
            return out
        if isinstance(st, ast.Try) and not st.finalbody and not st.orelse and st.body and isinstance(st.body[-1], ast.Return) \
                and st.body[-1].value is not None and not _contains_return(st.body[:-1]):
            # `try: ..; return E except X: H` -> `try: ..; __tv = E except X: H else: return __tv` (E stays under the handlers'
            # protection, the return itself cannot raise)
            _TRYVAL[0] += 1
            tv = "__tryval%d" % _TRYVAL[0]
            ret = st.body[-1]
            asg = ast.copy_location(ast.Assign(targets=[ast.Name(id=tv, ctx=ast.Store())], value=ret.value), ret)
            st = ast.copy_location(ast.Try(body=list(st.body[:-1]) + [asg], handlers=st.handlers,
                                           orelse=[ast.copy_location(ast.Return(value=ast.Name(id=tv, ctx=ast.Load())), ret)], finalbody=[]), st)
            ast.fix_missing_locations(st)
        if isinstance(st, ast.Try) and not st.finalbody and not _contains_return(st.body) and (
                _contains_return([h_ for h in st.handlers for h_ in h.body]) or _contains_return(st.orelse)):
            # `try: A except: H (returns / raises / falls through)` + REST -> REST moves into the else-clause (and behind a handler
            # that falls through): REST is outside the protection of the handlers either way
            rest = stmts[i + 1:]
            hs = []
            for h in st.handlers:
                hb = _tailify(list(h.body), budget)
                leaves = bool(hb) and (isinstance(hb[-1], (ast.Raise, ast.Return)) or _ends_with_return(hb))
                if not leaves and rest:
                    hb = _tailify(list(h.body) + copy.deepcopy(rest), budget)
                hs.append(ast.copy_location(ast.ExceptHandler(type=h.type, name=h.name, body=hb or [ast.copy_location(ast.Pass(), h)]), h))
            oe = _tailify(list(st.orelse) + list(rest), budget)
            out.append(ast.copy_location(ast.Try(body=st.body, handlers=hs, orelse=oe, finalbody=[]), st))
            return out
        out.append(st)
    return out


def _loop_returns_to_break(body):
    """[pre.., <loop with `return X` inside>, `return D`] -> [pre.., __lr = D, <loop with `__lr = X; break`>, `return __lr`]
    (D a constant; the returns are not inside a nested loop / try / with); None when the body is not of that shape"""
    if len(body) < 2 or not isinstance(body[-1], ast.Return) or not isinstance(body[-2], (ast.For, ast.While)) or body[-2].orelse:
        return None
    d = body[-1].value
    if not (d is None or isinstance(d, ast.Constant)):
        return None
    if _contains_return(body[:-2]):
        return None
    loop = copy.deepcopy(body[-2])
    ok = [True]
    hits = [0]

    def conv(stmts):
        out = []
        for st in stmts:
            if isinstance(st, ast.Return):
                out.append(ast.copy_location(ast.Assign(targets=[ast.Name(id="__lr", ctx=ast.Store())],
                                                        value=st.value if st.value is not None else ast.Constant(value=None)), st))
                out.append(ast.copy_location(ast.Break(), st))
                hits[0] += 1
                return out
            if isinstance(st, ast.If):
                st.body = conv(st.body) or [ast.copy_location(ast.Pass(), st)]
                st.orelse = conv(st.orelse)
            elif _contains_return([st]):
                ok[0] = False
            out.append(st)
        return out
    loop.body = conv(loop.body)
    if not ok[0] or not hits[0]:
        return None
    init = ast.copy_location(ast.Assign(targets=[ast.Name(id="__lr", ctx=ast.Store())],
                                        value=copy.deepcopy(d) if d is not None else ast.Constant(value=None)), loop)
    fin = ast.copy_location(ast.Return(value=ast.Name(id="__lr", ctx=ast.Load())), body[-1])
    new = list(body[:-2]) + [init, loop, fin]
    for st in new:
        ast.fix_missing_locations(st)
    return new


def _helper_body(fn):
    return getattr(fn, "_tail_body", None) or [s for s in fn.body if not (isinstance(s, ast.Expr) and isinstance(s.value, ast.Constant))]


def _kwarg_passthrough_only(fn):
    """the `**kwargs` parameter is only ever forwarded as `**kwargs` to calls"""
    name = fn.args.kwarg.arg
    uses = [n for n in ast.walk(fn) if isinstance(n, ast.Name) and n.id == name]
    fwd = [k.value for c in ast.walk(fn) if isinstance(c, ast.Call) for k in c.keywords if k.arg is None and isinstance(k.value, ast.Name)
           and k.value.id == name]
    return bool(uses) and len(uses) == len(fwd) and all(any(u is f for f in fwd) for u in uses)


def _inlinable(fn, force=False):
    if fn.name in KEEP or (not fn.name.startswith("_") and not force) or fn.name.startswith("__"):
        return False
    for d in fn.decorator_list:
        if not (isinstance(d, ast.Name) and d.id in ("staticmethod", "classmethod")):
            return False
    a = fn.args
    if a.vararg or a.posonlyargs:
        return False
    if a.kwarg and not _kwarg_passthrough_only(fn):
        return False
    for sub in ast.walk(fn):
        if isinstance(sub, (ast.Yield, ast.YieldFrom, ast.Await, ast.Global, ast.Nonlocal)):
            return False
        if isinstance(sub, ast.Call) and isinstance(sub.func, ast.Name) and sub.func.id == fn.name:
            return False
        if isinstance(sub, ast.Call) and isinstance(sub.func, ast.Attribute) and sub.func.attr == fn.name:
            return False
        if isinstance(sub, (ast.FunctionDef, ast.AsyncFunctionDef)) and sub is not fn:
            return False
        # role anchors: the spreadsheet cell writer (`sh.cell(row=.., column=..)`) is recognised by rules as a function
        if isinstance(sub, ast.Call) and isinstance(sub.func, ast.Attribute) and sub.func.attr == "cell" \
                and any(k.arg in ("row", "column") for k in sub.keywords):
            return False
    body = [s for s in fn.body if not (isinstance(s, ast.Expr) and isinstance(s.value, ast.Constant))]
    fn._tail_body = None
    if _tail_returns_only(body):
        return True
    tb = _tailify(copy.deepcopy(body))
    if _tail_returns_only(tb):
        fn._tail_body = tb
        return True
    lb = _loop_returns_to_break(body)
    if lb is not None and _tail_returns_only(lb):
        fn._tail_body = lb
        return True
    return False


def _simple_arg(e):
    if isinstance(e, ast.Tuple) and all(isinstance(x, ast.Constant) for x in e.elts):
        return True       # an immutable literal
    return isinstance(e, (ast.Name, ast.Constant, ast.Attribute)) or (
        isinstance(e, ast.Subscript) and isinstance(e.value, (ast.Name, ast.Attribute)) and isinstance(e.slice, (ast.Constant, ast.Name)))


def _pure_arg(e, depth=0):
    """a comparison / boolean combination of names and constants: evaluating it later, or more than once, gives the same value
    as long as the names are not re-assigned (the expanded helper cannot assign the caller's names: its locals are renamed)"""
    if depth > 3:
        return False
    if isinstance(e, (ast.Name, ast.Constant)):
        return True
    if isinstance(e, ast.Compare):
        return len(e.ops) == 1 and isinstance(e.ops[0], (ast.Eq, ast.NotEq, ast.Is, ast.IsNot, ast.Lt, ast.LtE, ast.Gt, ast.GtE)) \
            and _pure_arg(e.left, depth + 1) and _pure_arg(e.comparators[0], depth + 1)
    if isinstance(e, ast.BoolOp):
        return all(_pure_arg(v, depth + 1) for v in e.values)
    if isinstance(e, ast.UnaryOp) and isinstance(e.op, ast.Not):
        return _pure_arg(e.operand, depth + 1)
    return False


class _Renamer(ast.NodeTransformer):
    def __init__(self, subst, rename):
        self.subst, self.rename = subst, rename

    def visit_Name(self, node):
        if node.id in self.subst and isinstance(node.ctx, ast.Load):
            return ast.copy_location(copy.deepcopy(self.subst[node.id]), node)
        if node.id in self.rename:
            return ast.copy_location(ast.Name(id=self.rename[node.id], ctx=node.ctx), node)
        return node

    def visit_arg(self, node):
        return node


def _expand(call, fn, is_method, counter, result_name):
    """statements implementing the call (parameters bound, locals renamed); result assigned to result_name (or dropped)"""
    params = [a.arg for a in fn.args.args]
    args = list(call.args)
    recv = None
    if is_method and not any(isinstance(d, ast.Name) and d.id == "staticmethod" for d in fn.decorator_list):
        recv = call.func.value if isinstance(call.func, ast.Attribute) else None
        if params:
            self_name = params[0]
            params = params[1:]
        else:
            return None
    else:
        self_name = None
    defaults = fn.args.defaults
    nd = len(defaults)
    bound = {}
    for i, p in enumerate(params):
        if i < len(args):
            if isinstance(args[i], ast.Starred):
                return None
            bound[p] = args[i]
    surplus = []
    for kw in call.keywords:
        if kw.arg is not None and kw.arg not in params and kw.arg not in [a.arg for a in fn.args.kwonlyargs] and fn.args.kwarg is not None:
            surplus.append(kw)
            continue
        if kw.arg is None or kw.arg not in params and kw.arg not in [a.arg for a in fn.args.kwonlyargs]:
            return None
        bound[kw.arg] = kw.value
    allp = [a.arg for a in fn.args.args]
    for i, p in enumerate(params):
        if p not in bound:
            j = allp.index(p) - (len(allp) - nd)
            if j < 0:
                return None
            bound[p] = defaults[j]
    for a, d in zip(fn.args.kwonlyargs, fn.args.kw_defaults):
        if a.arg not in bound:
            if d is None:
                return None
            bound[a.arg] = d
    tag = "__%s%d" % (fn.name.strip("_"), counter)
    pre = []
    subst = {}
    rename = {}
    stores = {n.id for n in ast.walk(fn) if isinstance(n, ast.Name) and isinstance(n.ctx, ast.Store)}
    stores |= {n.id for st in _helper_body(fn) for n in ast.walk(st) if isinstance(n, ast.Name) and isinstance(n.ctx, ast.Store)}
    for p, a in bound.items():
        if (_simple_arg(a) or _pure_arg(a)) and p not in stores:
            subst[p] = a
        else:
            nm = p + tag
            rename[p] = nm
            pre.append(ast.Assign(targets=[ast.Name(id=nm, ctx=ast.Store())], value=copy.deepcopy(a), lineno=call.lineno, col_offset=0))
    if self_name is not None:
        if recv is None:
            return None
        if _simple_arg(recv) and self_name not in stores:
            subst[self_name] = recv
        else:
            nm = self_name + tag
            rename[self_name] = nm
            pre.append(ast.Assign(targets=[ast.Name(id=nm, ctx=ast.Store())], value=copy.deepcopy(recv), lineno=call.lineno, col_offset=0))
    for nm in stores:
        if nm not in rename and nm not in bound:
            rename[nm] = nm + tag
    body = [copy.deepcopy(s) for s in _helper_body(fn)]
    rn = _Renamer(subst, rename)
    body = [rn.visit(s) for s in body]
    if fn.args.kwarg is not None:
        # `**kwargs` is only forwarded: write the surplus keywords of this call site out at every forwarding call
        fwd_kws = []
        for kw in surplus:
            if _simple_arg(kw.value):
                fwd_kws.append((kw.arg, kw.value))
            else:
                nm = kw.arg + tag
                pre.append(ast.Assign(targets=[ast.Name(id=nm, ctx=ast.Store())], value=copy.deepcopy(kw.value), lineno=call.lineno, col_offset=0))
                fwd_kws.append((kw.arg, ast.Name(id=nm, ctx=ast.Load())))
        kwname = rename.get(fn.args.kwarg.arg, fn.args.kwarg.arg)
        for st in body:
            for c in ast.walk(st):
                if isinstance(c, ast.Call):
                    for k in list(c.keywords):
                        if k.arg is None and isinstance(k.value, ast.Name) and k.value.id in (kwname, fn.args.kwarg.arg):
                            i = c.keywords.index(k)
                            c.keywords[i:i + 1] = [ast.keyword(arg=a, value=copy.deepcopy(v)) for a, v in fwd_kws]

    def fix_returns(stmts):
        out = []
        for st in stmts:
            if isinstance(st, ast.Return):
                if result_name is not None:
                    val = st.value if st.value is not None else ast.Constant(value=None)
                    out.append(ast.copy_location(ast.Assign(targets=[ast.Name(id=result_name, ctx=ast.Store())], value=val), st))
                elif st.value is not None and not isinstance(st.value, (ast.Constant, ast.Name)):
                    out.append(ast.copy_location(ast.Expr(value=st.value), st))
                continue
            if isinstance(st, ast.If):
                st.body = fix_returns(st.body) or [ast.copy_location(ast.Pass(), st)]
                st.orelse = fix_returns(st.orelse)
            elif isinstance(st, ast.Try):
                for h in st.handlers:
                    h.body = fix_returns(h.body) or [ast.copy_location(ast.Pass(), h)]
                st.orelse = fix_returns(st.orelse)
            out.append(st)
        return out
    body = fix_returns(body)
    if result_name is not None and not _ends_with_return(_helper_body(fn)):
        # falls off the end on some path: result defaults to None
        pre.append(ast.Assign(targets=[ast.Name(id=result_name, ctx=ast.Store())], value=ast.Constant(value=None), lineno=call.lineno, col_offset=0))
    return pre + body


_REFERENCE = [None]


def _reference():
    if _REFERENCE[0] is None:
        import json as _json
        import os as _os
        try:
            _REFERENCE[0] = _json.load(open(_os.path.join(_os.path.dirname(_os.path.abspath(__file__)), "api_reference.json")))
        except (OSError, ValueError):
            _REFERENCE[0] = {}
    return _REFERENCE[0]


def lower_release_callables(tree):
    """a local that is bound either to `<h>.close` (the handle was opened here) or to a module-level function that does nothing
    (the handle is the caller's), and is only ever called without arguments, is a flag in disguise: `r = h.close` becomes
    `r__owned = True`, `r = _noop` becomes `r__owned = False` and `r()` becomes `if r__owned: h.close()`.  h must be one name per
    binding that is not re-bound afterwards."""
    noops = set()
    for f in tree.body:
        if isinstance(f, ast.FunctionDef) and not f.args.args and not f.args.vararg and not f.args.kwarg and not f.args.kwonlyargs \
                and all(isinstance(st, ast.Pass) or (isinstance(st, ast.Expr) and isinstance(st.value, ast.Constant)) or (
                    isinstance(st, ast.Return) and (st.value is None or (isinstance(st.value, ast.Constant) and st.value.value is None))) for st in f.body):
            noops.add(f.name)
    n = 0
    for fn in [x for x in ast.walk(tree) if isinstance(x, (ast.FunctionDef, ast.AsyncFunctionDef))]:
        order = {id(x): i for i, x in enumerate(_preorder(fn))}
        defs = {}
        for st in ast.walk(fn):
            if isinstance(st, ast.Assign) and len(st.targets) == 1 and isinstance(st.targets[0], ast.Name):
                defs.setdefault(st.targets[0].id, []).append(st)
        for r, dl in defs.items():
            closing = [st for st in dl if isinstance(st.value, ast.Attribute) and st.value.attr == "close" and isinstance(st.value.value, ast.Name)]
            nothing = [st for st in dl if isinstance(st.value, ast.Name) and st.value.id in noops]
            if not closing or len(closing) + len(nothing) != len(dl):
                continue
            stores = [x for x in ast.walk(fn) if isinstance(x, ast.Name) and x.id == r and isinstance(x.ctx, (ast.Store, ast.Del))]
            if len(stores) != len(dl):
                continue
            loads = [x for x in ast.walk(fn) if isinstance(x, ast.Name) and x.id == r and isinstance(x.ctx, ast.Load)]
            calls = [c for c in ast.walk(fn) if isinstance(c, ast.Call) and isinstance(c.func, ast.Name) and c.func.id == r and not c.args and not c.keywords
                     and isinstance(getattr(c, "_stmt", None) or c, ast.AST)]
            call_stmts = [st for st in ast.walk(fn) if isinstance(st, ast.Expr) and isinstance(st.value, ast.Call) and any(st.value is c for c in calls)]
            if not loads or len(loads) != len(calls) or len(call_stmts) != len(calls):
                continue
            handles = {st.value.value.id for st in closing}
            last_def = max(order[id(st)] for st in dl)
            if any(isinstance(x, ast.Name) and x.id in handles and isinstance(x.ctx, (ast.Store, ast.Del)) and order[id(x)] > last_def
                   for x in ast.walk(fn)):
                continue
            # one handle variable visible at the call: if the closing bindings name different temporaries that are copied into a
            # common name right away (`s1 = open(..); stream = s1; r = s1.close`), use the common name
            h = None
            if len(handles) == 1:
                h = next(iter(handles))
            if h is None:
                continue
            copies = [st for st in ast.walk(fn) if isinstance(st, ast.Assign) and len(st.targets) == 1 and isinstance(st.targets[0], ast.Name)
                      and isinstance(st.value, ast.Name) and st.value.id == h]
            hname = copies[0].targets[0].id if len(copies) == 1 and order[id(copies[0])] < last_def else h
            if hname != h:
                # `tmp = open(..); x = tmp; r = tmp.close` (tmp an inliner temporary read nowhere else): x is the handle variable
                other_loads = [x for x in ast.walk(fn) if isinstance(x, ast.Name) and x.id == h and isinstance(x.ctx, ast.Load)
                               and x is not copies[0].value and not any(x is st.value.value for st in closing)]
                hstores = [x for x in ast.walk(fn) if isinstance(x, ast.Name) and x.id == h and isinstance(x.ctx, ast.Store)]
                if not other_loads and len(hstores) == 1 and "__" in h:
                    hstores[0].id = hname
                    copies[0].value.id = hname          # becomes `x = x`, removed by drop_self_assignments
                else:
                    hname = h
            flag = "%s__owned" % r
            for st in closing:
                st.targets[0].id = flag
                st.value = ast.copy_location(ast.Constant(value=True), st.value)
            for st in nothing:
                st.targets[0].id = flag
                st.value = ast.copy_location(ast.Constant(value=False), st.value)

            def blockfn(stmts, call_stmts=call_stmts, flag=flag, hname=hname):
                out = []
                for st in stmts:
                    if any(st is c for c in call_stmts):
                        close = ast.Expr(value=ast.Call(func=ast.Attribute(value=ast.Name(id=hname, ctx=ast.Load()), attr="close", ctx=ast.Load()),
                                                        args=[], keywords=[]))
                        out.append(ast.copy_location(ast.If(test=ast.Name(id=flag, ctx=ast.Load()), body=[ast.copy_location(close, st)], orelse=[]), st))
                    else:
                        out.append(st)
                return out
            _map_blocks(fn, blockfn)
            ast.fix_missing_locations(fn)
            n += 1
    return n


def resugar_tail_returns(tree):
    """what the inliner leaves behind for `return helper(..)`: an if/try tree whose every tail is `__ret_x = E`, followed by
    `return __ret_x`, becomes the tree with `return E` in its tails again; `try: ..; __tryval = E except ..: .. else: return
    __tryval` becomes `try: ..; return E except ..` again"""
    n = [0]

    def tails_assign(block, x):
        if not block:
            return False
        last = block[-1]
        if isinstance(last, ast.Assign) and len(last.targets) == 1 and isinstance(last.targets[0], ast.Name) and last.targets[0].id == x:
            return True
        if isinstance(last, ast.If):
            return bool(last.orelse) and tails_assign(last.body, x) and tails_assign(last.orelse, x)
        if isinstance(last, ast.Try) and not last.finalbody:
            return all(tails_assign(h.body, x) for h in last.handlers) and tails_assign(last.orelse if last.orelse else last.body, x)
        return False

    def push(block, x):
        last = block[-1]
        if isinstance(last, ast.Assign):
            block[-1] = ast.copy_location(ast.Return(value=last.value), last)
        elif isinstance(last, ast.If):
            push(last.body, x)
            push(last.orelse, x)
        else:
            for h in last.handlers:
                push(h.body, x)
            push(last.orelse if last.orelse else last.body, x)

    for fn in ast.walk(tree):
        if not isinstance(fn, (ast.FunctionDef, ast.AsyncFunctionDef)) or len(fn.body) < 2:
            continue
        last = fn.body[-1]
        if not (isinstance(last, ast.Return) and isinstance(last.value, ast.Name) and last.value.id.startswith("__ret_")):
            continue
        x = last.value.id
        prev = fn.body[-2]
        if not isinstance(prev, (ast.If, ast.Try)) or not tails_assign([prev], x):
            continue
        uses = [y for y in ast.walk(fn) if isinstance(y, ast.Name) and y.id == x and isinstance(y.ctx, ast.Load)]
        if len(uses) != 1:
            continue
        push(fn.body[:-1][-1:], x) if False else None
        holder = [prev]
        push(holder, x)
        fn.body[-2:] = holder
        n[0] += 1
    for t in ast.walk(tree):
        if isinstance(t, ast.Try) and not t.finalbody and len(t.orelse) == 1 and isinstance(t.orelse[0], ast.Return) \
                and isinstance(t.orelse[0].value, ast.Name) and t.orelse[0].value.id.startswith("__tryval") and t.body \
                and isinstance(t.body[-1], ast.Assign) and len(t.body[-1].targets) == 1 and isinstance(t.body[-1].targets[0], ast.Name) \
                and t.body[-1].targets[0].id == t.orelse[0].value.id:
            t.body[-1] = ast.copy_location(ast.Return(value=t.body[-1].value), t.body[-1])
            t.orelse = []
            n[0] += 1
    if n[0]:
        ast.fix_missing_locations(tree)
    return n[0]


def specialise_varargs(tree, modname=None):
    """a private module-level function that today's tree does not have and that takes `*args` only to pass them on (`g(*args)`)
    or to pick one (`args[-1]`) is cloned once per number of extra positional arguments its call sites supply, with the extra
    arguments as ordinary parameters (keyword-only parameters become ordinary ones with their defaults); the call sites call
    the clone, which the inliner can expand"""
    ref = _reference() if modname else {}
    n = 0
    for f in list(tree.body):
        if not (isinstance(f, ast.FunctionDef) and f.args.vararg and not f.args.kwarg and not f.args.defaults and not f.decorator_list
                and f.name.startswith("_") and not f.name.startswith("__")):
            continue
        if modname and ("%s.%s" % (modname, f.name)) in ref:
            continue
        if any(d is None for d in f.args.kw_defaults):
            continue
        V = f.args.vararg.arg
        uses = [x for x in ast.walk(f) if isinstance(x, ast.Name) and x.id == V]
        good = 0
        for x in ast.walk(f):
            if isinstance(x, ast.Starred) and isinstance(x.value, ast.Name) and x.value.id == V and isinstance(x.ctx, ast.Load):
                good += 1
            elif isinstance(x, ast.Subscript) and isinstance(x.value, ast.Name) and x.value.id == V and isinstance(x.ctx, ast.Load) and (
                    (isinstance(x.slice, ast.Constant) and isinstance(x.slice.value, int)) or (
                        isinstance(x.slice, ast.UnaryOp) and isinstance(x.slice.op, ast.USub) and isinstance(x.slice.operand, ast.Constant))):
                good += 1
        if good != len(uses) or not uses:
            continue
        nfixed = len(f.args.args)
        calls = [c for c in ast.walk(tree) if isinstance(c, ast.Call) and isinstance(c.func, ast.Name) and c.func.id == f.name]
        if not calls or any(any(isinstance(a, ast.Starred) for a in c.args) or len(c.args) < nfixed for c in calls):
            continue
        clones = {}
        okk = True
        for c in calls:
            k = len(c.args) - nfixed
            if k in clones:
                continue
            g = copy.deepcopy(f)
            g.name = "%s__va%d" % (f.name, k)
            extras = ["%s_%d" % (V, i) for i in range(k)]
            g.args.args = list(g.args.args) + [ast.arg(arg=e_) for e_ in extras] + list(g.args.kwonlyargs)
            g.args.defaults = list(g.args.kw_defaults)
            g.args.kwonlyargs, g.args.kw_defaults, g.args.vararg = [], [], None

            class R(ast.NodeTransformer):
                def visit_Call(self, node):
                    self.generic_visit(node)
                    new_args = []
                    for a in node.args:
                        if isinstance(a, ast.Starred) and isinstance(a.value, ast.Name) and a.value.id == V:
                            new_args.extend(ast.Name(id=e_, ctx=ast.Load()) for e_ in extras)
                        else:
                            new_args.append(a)
                    node.args = new_args
                    return node

                def visit_Subscript(self, node):
                    self.generic_visit(node)
                    if isinstance(node.value, ast.Name) and node.value.id == V:
                        idx = node.slice.value if isinstance(node.slice, ast.Constant) else -node.slice.operand.value
                        if not -k <= idx < k:
                            raise IndexError
                        return ast.copy_location(ast.Name(id=extras[idx % k], ctx=ast.Load()), node)
                    return node
            try:
                g.body = [R().visit(st) for st in g.body]
            except IndexError:
                okk = False
                break
            ast.fix_missing_locations(g)
            clones[k] = g
        if not okk:
            continue
        for c in calls:
            c.func.id = clones[len(c.args) - nfixed].name
        pos = tree.body.index(f)
        tree.body[pos + 1:pos + 1] = [clones[k] for k in sorted(clones)]
        n += len(calls)
    return n


def refold_wrapper_calls(tree, modname=None):
    """a method that is nothing but `return f(<its parameters and self.<attr> values>)` around a module-level function f that
    today's tree does not have is the *public face* of f: inside the same class a call `f(x, y, self.attr)` that supplies the same
    self.<attr> values is the call `self.method(x, y)` (the hoisted comparison / conversion function is folded back, so that
    rules anchored on the method see its call sites again; f itself is expanded into the method by the inliner)"""
    ref = _reference() if modname else {}
    funcs = {n.name: n for n in tree.body if isinstance(n, ast.FunctionDef)}
    n = 0
    for cls in tree.body:
        if not isinstance(cls, ast.ClassDef):
            continue
        for m in cls.body:
            if not isinstance(m, ast.FunctionDef) or m.decorator_list or not m.args.args:
                continue
            body = [st for st in m.body if not (isinstance(st, ast.Expr) and isinstance(st.value, ast.Constant))]
            if len(body) != 1 or not isinstance(body[0], ast.Return) or not isinstance(body[0].value, ast.Call):
                continue
            c = body[0].value
            if not (isinstance(c.func, ast.Name) and c.func.id in funcs) or c.keywords or any(isinstance(a, ast.Starred) for a in c.args):
                continue
            f = funcs[c.func.id]
            if modname and ("%s.%s" % (modname, f.name)) in ref:
                continue
            selfname = m.args.args[0].arg
            params = [a.arg for a in m.args.args[1:]]
            if m.args.vararg or m.args.kwarg or m.args.kwonlyargs or m.args.defaults:
                continue
            shape = []      # per argument of f: ("param", name) | ("self", attr)
            okk = True
            for a in c.args:
                if isinstance(a, ast.Name) and a.id in params:
                    shape.append(("param", a.id))
                elif isinstance(a, ast.Attribute) and isinstance(a.value, ast.Name) and a.value.id == selfname:
                    shape.append(("self", a.attr))
                else:
                    okk = False
            if not okk or sorted(x[1] for x in shape if x[0] == "param") != sorted(params):
                continue
            fparams = [a.arg for a in f.args.args]
            for other in cls.body:
                if not isinstance(other, ast.FunctionDef) or other is m or not other.args.args:
                    continue
                oself = other.args.args[0].arg
                if any(isinstance(d, ast.Name) and d.id == "staticmethod" for d in other.decorator_list):
                    continue

                class R(ast.NodeTransformer):
                    def visit_Call(self, node):
                        self.generic_visit(node)
                        nonlocal n
                        if not (isinstance(node.func, ast.Name) and node.func.id == f.name):
                            return node
                        if any(isinstance(a, ast.Starred) for a in node.args) or any(k.arg is None for k in node.keywords):
                            return node
                        args = list(node.args)
                        for k in node.keywords:
                            if k.arg not in fparams or fparams.index(k.arg) != len(args):
                                return node
                            args.append(k.value)
                        if len(args) != len(shape):
                            return node
                        bound = {}
                        for a, (kind, nm) in zip(args, shape):
                            if kind == "self":
                                if not (isinstance(a, ast.Attribute) and a.attr == nm and isinstance(a.value, ast.Name) and a.value.id == oself):
                                    return node
                            else:
                                bound[nm] = a
                        n += 1
                        return ast.copy_location(ast.Call(func=ast.Attribute(value=ast.Name(id=oself, ctx=ast.Load()), attr=m.name, ctx=ast.Load()),
                                                          args=[bound[p_] for p_ in params], keywords=[]), node)
                for i_, st in enumerate(other.body):
                    other.body[i_] = R().visit(st)
    if n:
        ast.fix_missing_locations(tree)
    return n


def inline_helpers(tree, extern=None, modname=None):
    """inline private helpers into their callers, in place; returns the number of call sites expanded.
    extern: {local name: FunctionDef} private helpers imported from another lasio module"""
    helpers = {}
    methods = {}
    for nm, node in (extern or {}).items():
        if _inlinable(node, force=True):
            helpers[nm] = node
    ref = _reference() if modname else {}

    def is_new(q):
        # a function that today's tree does not have is no anchor of any rule, whatever its name: it is expanded like a private helper
        return bool(ref) and q not in ref
    for node in tree.body:
        if isinstance(node, ast.FunctionDef) and _inlinable(node, force=is_new("%s.%s" % (modname, node.name))):
            helpers[node.name] = node
        elif isinstance(node, ast.ClassDef):
            for sub in node.body:
                if isinstance(sub, ast.FunctionDef) and _inlinable(sub, force=is_new("%s.%s.%s" % (modname, node.name, sub.name))):
                    methods[(node.name, sub.name)] = sub
    if not helpers and not methods:
        return 0
    total = 0
    counter = [0]

    def find_call(expr, cls_name):
        """first call to an inlinable helper inside expr -> (call node, fn, is_method)"""
        for sub in ast.walk(expr):
            if isinstance(sub, (ast.Lambda, ast.ListComp, ast.SetComp, ast.DictComp, ast.GeneratorExp)):
                continue
            if isinstance(sub, ast.Call):
                f = sub.func
                if isinstance(f, ast.Name) and f.id in helpers:
                    return sub, helpers[f.id], False
                if isinstance(f, ast.Attribute) and isinstance(f.value, ast.Name) and f.value.id in ("self", "cls") and cls_name \
                        and (cls_name, f.attr) in methods:
                    return sub, methods[(cls_name, f.attr)], True
                if isinstance(f, ast.Attribute) and isinstance(f.value, ast.Name) and (f.value.id, f.attr) in methods \
                        and any(isinstance(d, ast.Name) and d.id == "staticmethod" for d in methods[(f.value.id, f.attr)].decorator_list):
                    return sub, methods[(f.value.id, f.attr)], False
        return None

    def in_comprehension(stmt, call):
        for sub in ast.walk(stmt):
            if isinstance(sub, (ast.Lambda, ast.ListComp, ast.SetComp, ast.DictComp, ast.GeneratorExp)):
                if any(x is call for x in ast.walk(sub)):
                    return True
        return False

    def process_block(stmts, cls_name, self_fn):
        nonlocal total
        out = []
        for st in stmts:
            # recurse into compound statements first
            for field in ("body", "orelse", "finalbody"):
                blk = getattr(st, field, None)
                if isinstance(blk, list) and blk and isinstance(blk[0], ast.stmt) and not isinstance(st, (ast.FunctionDef, ast.ClassDef)):
                    setattr(st, field, process_block(blk, cls_name, self_fn))
            if isinstance(st, ast.Try):
                for h in st.handlers:
                    h.body = process_block(h.body, cls_name, self_fn)
            if isinstance(st, ast.FunctionDef) and st is not self_fn:
                # a closure: helper calls inside it are expanded like anywhere else
                st.body = process_block(st.body, cls_name, st)
            if isinstance(st, (ast.FunctionDef, ast.ClassDef)):
                out.append(st)
                continue
            # the expression part of this statement that may contain a helper call
            exprs = []
            if isinstance(st, (ast.Assign, ast.AugAssign, ast.AnnAssign, ast.Return, ast.Expr)):
                if getattr(st, "value", None) is not None:
                    exprs.append(("value", st.value))
            elif isinstance(st, (ast.If, ast.While)):
                exprs.append(("test", st.test))
            elif isinstance(st, ast.For):
                exprs.append(("iter", st.iter))
            guard = 0
            while guard < 6:
                guard += 1
                hit = None
                for field, e in exprs:
                    hit = find_call(e, cls_name)
                    if hit:
                        break
                if not hit:
                    break
                call, fn, is_method = hit
                if fn is self_fn or in_comprehension(st, call) or isinstance(st, ast.While):
                    break
                counter[0] += 1
                whole = isinstance(st, (ast.Assign, ast.Expr, ast.Return)) and st.value is call
                if isinstance(st, ast.Expr) and whole:
                    exp = _expand(call, fn, is_method, counter[0], None)
                    if exp is None:
                        break
                    out.extend(exp)
                    total += 1
                    st = None
                    break
                res = "__ret_%s%d" % (fn.name.strip("_"), counter[0])
                exp = _expand(call, fn, is_method, counter[0], res)
                if exp is None:
                    break
                out.extend(exp)
                total += 1
                # replace the call by the result name

                class R(ast.NodeTransformer):
                    def visit_Call(self, node):
                        if node is call:
                            return ast.copy_location(ast.Name(id=res, ctx=ast.Load()), node)
                        return self.generic_visit(node)
                st = R().visit(st)
                exprs = []
                if isinstance(st, (ast.Assign, ast.AugAssign, ast.AnnAssign, ast.Return, ast.Expr)):
                    if getattr(st, "value", None) is not None:
                        exprs.append(("value", st.value))
                elif isinstance(st, ast.If):
                    exprs.append(("test", st.test))
                elif isinstance(st, ast.For):
                    exprs.append(("iter", st.iter))
            if st is not None:
                out.append(st)
        return out

    for node in tree.body:
        if isinstance(node, ast.FunctionDef):
            node.body = process_block(node.body, None, node)
        elif isinstance(node, ast.ClassDef):
            for sub in node.body:
                if isinstance(sub, ast.FunctionDef):
                    sub.body = process_block(sub.body, node.name, sub)
    if total:
        # collapse `x = <expr>; y = x` chains produced by the expansion:  __ret = v ; target = __ret  ->  target = v
        _collapse_result_copies(tree)
        _sink_tuple_results(tree)
        _thread_bool_results(tree)
        ast.fix_missing_locations(tree)
    return total


def _simple_generator(fn):
    """a private generator: straight-line prelude, then one `for` loop whose `yield <value>` statements are not inside an inner
    loop/try/with -> the loop, else None"""
    if fn.decorator_list or fn.args.vararg or fn.args.kwarg or fn.args.posonlyargs:
        return None
    body = [s for s in fn.body if not (isinstance(s, ast.Expr) and isinstance(s.value, ast.Constant))]
    if not body or not isinstance(body[-1], ast.For) or body[-1].orelse:
        return None
    for st in body[:-1]:
        if not isinstance(st, (ast.Assign, ast.AugAssign, ast.Expr)) or any(isinstance(x, (ast.Yield, ast.YieldFrom)) for x in ast.walk(st)):
            return None
    loop = body[-1]
    ylds = [x for x in ast.walk(fn) if isinstance(x, (ast.Yield, ast.YieldFrom))]
    if not ylds or any(isinstance(x, (ast.Await, ast.Global, ast.Nonlocal, ast.FunctionDef, ast.Lambda)) for x in ast.walk(loop)):
        return None
    # a bare `return` inside the loop ends the generator: the same as leaving the loop (nothing follows it in the generator)
    for x in ast.walk(loop):
        if isinstance(x, ast.Return) and x.value is not None:
            return None
        if isinstance(x, (ast.For, ast.While)) and x is not loop and any(isinstance(y, ast.Return) for y in ast.walk(x)):
            return None
    found = []

    def scan(stmts):
        for st in stmts:
            if isinstance(st, ast.Expr) and isinstance(st.value, ast.Yield) and st.value.value is not None:
                if any(isinstance(x, (ast.Yield, ast.YieldFrom)) for x in ast.walk(st.value.value)):
                    return False
                found.append(st)
            elif isinstance(st, ast.If):
                if any(isinstance(x, (ast.Yield, ast.YieldFrom)) for x in ast.walk(st.test)):
                    return False
                if not scan(st.body) or not scan(st.orelse):
                    return False
            elif any(isinstance(x, (ast.Yield, ast.YieldFrom)) for x in ast.walk(st)):
                return False
        return True
    if not scan(loop.body) or len(found) != len(ylds):
        return None
    return loop


def _decontinue(stmts):
    """`if c: ...; continue` + REST -> `if c: ... else: REST` at the level of one loop body; None when a `continue` remains"""
    out = []
    for i, st in enumerate(stmts):
        if isinstance(st, ast.Continue):
            return out            # the rest of the block is dead
        if isinstance(st, ast.If) and any(isinstance(x, ast.Continue) for x in ast.walk(st)):
            b_cont = bool(st.body) and isinstance(st.body[-1], ast.Continue)
            e_cont = bool(st.orelse) and isinstance(st.orelse[-1], ast.Continue)
            rest = stmts[i + 1:]
            nb = _decontinue(st.body[:-1] if b_cont else st.body)
            ne = _decontinue(st.orelse[:-1] if e_cont else st.orelse)
            if nb is None or ne is None:
                return None
            if b_cont and not e_cont:
                r = _decontinue(rest)
                if r is None:
                    return None
                new = ast.copy_location(ast.If(test=st.test, body=nb or [ast.copy_location(ast.Pass(), st)], orelse=ne + r), st)
            elif e_cont and not b_cont:
                r = _decontinue(rest)
                if r is None:
                    return None
                new = ast.copy_location(ast.If(test=st.test, body=nb + r or [ast.copy_location(ast.Pass(), st)], orelse=ne), st)
            elif b_cont and e_cont:
                new = ast.copy_location(ast.If(test=st.test, body=nb or [ast.copy_location(ast.Pass(), st)], orelse=ne), st)
            else:
                return None       # a continue deeper inside: not handled
            out.append(new)
            return out
        if isinstance(st, ast.Try) and not st.finalbody and any(isinstance(x, ast.Continue) for x in ast.walk(st)) \
                and not any(isinstance(x, ast.Continue) for b_ in st.body for x in ast.walk(b_)):
            # `try: A except: H; continue` + REST  ->  `try: A except: H else: REST` (REST is not protected by the handlers either way)
            rest = _decontinue(stmts[i + 1:])
            if rest is None:
                return None
            hs = []
            for h in st.handlers:
                ends_cont = bool(h.body) and isinstance(h.body[-1], ast.Continue)
                hb = _decontinue(h.body[:-1] if ends_cont else h.body)
                if hb is None:
                    return None
                leaves = bool(hb) and isinstance(hb[-1], (ast.Raise, ast.Return, ast.Break))
                if not ends_cont and not leaves:
                    hb = hb + copy.deepcopy(rest)
                hs.append(ast.copy_location(ast.ExceptHandler(type=h.type, name=h.name, body=hb or [ast.copy_location(ast.Pass(), h)]), h))
            oe = _decontinue(st.orelse)
            if oe is None:
                return None
            out.append(ast.copy_location(ast.Try(body=st.body, handlers=hs, orelse=oe + rest, finalbody=[]), st))
            return out
        if any(isinstance(x, ast.Continue) for x in ast.walk(st)) and not isinstance(st, (ast.For, ast.While)):
            return None
        out.append(st)
    return out


def inline_simple_generators(tree, extern=None, modname=None):
    """`for T in self._gen(args): BODY` and `x = next(self._gen(args), D)` over a private one-loop generator are rewritten into
    the generator's own loop with `yield V` replaced by `T = V; BODY` resp. `x = V; break`"""
    gens, mgens = {}, {}
    for nm, node in (extern or {}).items():
        if isinstance(node, ast.FunctionDef) and _simple_generator(node) is not None:
            gens[nm] = node
    for node in tree.body:
        new_fn = bool(modname) and bool(_reference()) and ("%s.%s" % (modname, node.name)) not in _reference() if isinstance(node, ast.FunctionDef) else False
        if isinstance(node, ast.FunctionDef) and ((node.name.startswith("_") and not node.name.startswith("__")) or new_fn) \
                and _simple_generator(node) is not None:
            gens[node.name] = node
        elif isinstance(node, ast.ClassDef):
            for sub in node.body:
                if isinstance(sub, ast.FunctionDef) and sub.name.startswith("_") and not sub.name.startswith("__") \
                        and _simple_generator(sub) is not None:
                    mgens[(node.name, sub.name)] = sub
    if not gens and not mgens:
        return 0
    total = [0]
    counter = [0]

    def gen_call(e, cls_name):
        if not isinstance(e, ast.Call):
            return None
        f = e.func
        if isinstance(f, ast.Name) and f.id in gens:
            return gens[f.id], False
        if isinstance(f, ast.Attribute) and isinstance(f.value, ast.Name) and f.value.id == "self" and cls_name and (cls_name, f.attr) in mgens:
            return mgens[(cls_name, f.attr)], True
        return None

    def replace_yields(stmts, make):
        out = []
        for st in stmts:
            if isinstance(st, ast.Return):
                out.append(ast.copy_location(ast.Break(), st))      # the generator stops: the merged loop is left
                continue
            if isinstance(st, ast.Expr) and isinstance(st.value, ast.Yield):
                out.extend(make(st.value.value, st))
                continue
            if isinstance(st, ast.If):
                st.body = replace_yields(st.body, make) or [ast.copy_location(ast.Pass(), st)]
                st.orelse = replace_yields(st.orelse, make)
            out.append(st)
        return out

    def expand(call, fn, is_method):
        counter[0] += 1
        exp = _expand(call, fn, is_method, 900 + counter[0], None)
        if exp is None or not isinstance(exp[-1], ast.For):
            return None
        return exp

    def process(stmts, cls_name, self_fn):
        out = []
        stmts = list(stmts)
        # `g = _gen(..)` directly followed by `for .. in g:` (g used nowhere else): iterate the call itself
        for i_ in range(len(stmts) - 1):
            a_, b_ = stmts[i_], stmts[i_ + 1]
            if isinstance(a_, ast.Assign) and len(a_.targets) == 1 and isinstance(a_.targets[0], ast.Name) and gen_call(a_.value, cls_name) \
                    and isinstance(b_, ast.For) and isinstance(b_.iter, ast.Name) and b_.iter.id == a_.targets[0].id and self_fn is not None:
                uses = [x for x in ast.walk(self_fn) if isinstance(x, ast.Name) and x.id == a_.targets[0].id]
                if len(uses) == 2:
                    b_.iter = a_.value
                    stmts[i_] = ast.copy_location(ast.Pass(), a_)
        for st in stmts:
            for field in ("body", "orelse", "finalbody"):
                blk = getattr(st, field, None)
                if isinstance(blk, list) and blk and isinstance(blk[0], ast.stmt) and not isinstance(st, (ast.FunctionDef, ast.ClassDef)):
                    setattr(st, field, process(blk, cls_name, self_fn))
            if isinstance(st, ast.Try):
                for h in st.handlers:
                    h.body = process(h.body, cls_name, self_fn)
            if isinstance(st, ast.For):
                hit = gen_call(st.iter, cls_name)
                if hit and st.orelse and any(isinstance(x, ast.Return) for x in ast.walk(hit[0])):
                    hit = None       # `return` in the generator would have to run the consumer's else-clause
                if hit and hit[0] is not self_fn:
                    exp = expand(st.iter, hit[0], hit[1])
                    if exp is not None:
                        loop = exp[-1]
                        body, target = _decontinue(copy.deepcopy(st.body)), st.target
                        if body is None:
                            out.append(st)
                            continue
                        body = body or [ast.copy_location(ast.Pass(), st)]

                        def make(v, at, body=body, target=target):
                            # `yield (a, b)` consumed by `for x, y in ..`: x and y are a and b (when the body does not re-bind them)
                            tn = [target] if isinstance(target, ast.Name) else (list(target.elts) if isinstance(target, ast.Tuple) else None)
                            vn = [v] if isinstance(target, ast.Name) else (list(v.elts) if isinstance(v, ast.Tuple) else None)
                            if tn and vn and len(tn) == len(vn) and all(isinstance(t_, ast.Name) for t_ in tn) and all(isinstance(v_, ast.Name) for v_ in vn):
                                tids = {t_.id for t_ in tn}
                                rebinds = any(isinstance(x, ast.Name) and x.id in tids and isinstance(x.ctx, (ast.Store, ast.Del))
                                              for s_ in body for x in ast.walk(s_))
                                vids = {v_.id for v_ in vn}
                                clobbers = any(isinstance(x, ast.Name) and x.id in vids and isinstance(x.ctx, (ast.Store, ast.Del))
                                               for s_ in body for x in ast.walk(s_))
                                if not rebinds and not clobbers:
                                    m = {t_.id: v_.id for t_, v_ in zip(tn, vn)}

                                    class RN(ast.NodeTransformer):
                                        def visit_Name(self, node):
                                            if node.id in m and isinstance(node.ctx, ast.Load):
                                                return ast.copy_location(ast.Name(id=m[node.id], ctx=ast.Load()), node)
                                            return node
                                    return [RN().visit(s_) for s_ in copy.deepcopy(body)]
                            return [ast.copy_location(ast.Assign(targets=[copy.deepcopy(target)], value=v), at)] + copy.deepcopy(body)
                        loop.body = replace_yields(loop.body, make)
                        loop.orelse = st.orelse
                        out.extend(exp)
                        total[0] += 1
                        continue
            if isinstance(st, ast.Assign) and len(st.targets) == 1 and isinstance(st.targets[0], ast.Name) and isinstance(st.value, ast.Call) \
                    and isinstance(st.value.func, ast.Name) and st.value.func.id == "next" and len(st.value.args) == 2 and not st.value.keywords:
                hit = gen_call(st.value.args[0], cls_name)
                if hit and hit[0] is not self_fn:
                    exp = expand(st.value.args[0], hit[0], hit[1])
                    if exp is not None:
                        loop = exp[-1]
                        tname = st.targets[0].id

                        def make(v, at, tname=tname):
                            return [ast.copy_location(ast.Assign(targets=[ast.Name(id=tname, ctx=ast.Store())], value=v), at),
                                    ast.copy_location(ast.Break(), at)]
                        loop.body = replace_yields(loop.body, make)
                        out.append(ast.copy_location(ast.Assign(targets=[ast.Name(id=tname, ctx=ast.Store())], value=st.value.args[1]), st))
                        out.extend(exp)
                        total[0] += 1
                        continue
            out.append(st)
        return out

    for node in tree.body:
        if isinstance(node, ast.FunctionDef):
            node.body = process(node.body, None, node)
        elif isinstance(node, ast.ClassDef):
            for sub in node.body:
                if isinstance(sub, ast.FunctionDef):
                    sub.body = process(sub.body, node.name, sub)
    if total[0]:
        ast.fix_missing_locations(tree)
    return total[0]


def resugar_found_flag(tree):
    """`m = None; for ..: if c: m = V; break` followed by `if m is not None: A [else: B]` where A ends the function (return /
    raise / last statement of the function body) -> `for ..: if c: m = V; A` then B: the search-then-test idiom becomes
    act-on-first-match.  `m = (a, b)` whose only uses in A are `m[0]`, `m[1]` is dissolved into a and b."""
    n = [0]

    def terminal(stmts):
        return bool(stmts) and isinstance(stmts[-1], (ast.Return, ast.Raise))

    def rewrite(stmts, top):
        out = list(stmts)
        # `m = None; for ..: m = v; break` / `x = m` / `if x is not None:` - the copy is folded into the search variable first
        k = 0
        while k + 3 < len(out):
            a, loop, cp = out[k], out[k + 1], out[k + 2]
            if isinstance(a, ast.Assign) and len(a.targets) == 1 and isinstance(a.targets[0], ast.Name) and isinstance(a.value, ast.Constant) \
                    and a.value.value is None and isinstance(loop, ast.For) and isinstance(cp, ast.Assign) and len(cp.targets) == 1 \
                    and isinstance(cp.targets[0], ast.Name) and isinstance(cp.value, ast.Name) and cp.value.id == a.targets[0].id \
                    and cp.targets[0].id != a.targets[0].id:
                m, x = a.targets[0].id, cp.targets[0].id
                elsewhere = any(isinstance(n_, ast.Name) and n_.id == m for s2 in out[:k] + out[k + 3:] for n_ in ast.walk(s2))
                x_in_loop = any(isinstance(n_, ast.Name) and n_.id == x for n_ in ast.walk(loop))
                if not elsewhere and not x_in_loop:
                    for n_ in list(ast.walk(a)) + list(ast.walk(loop)):
                        if isinstance(n_, ast.Name) and n_.id == m:
                            n_.id = x
                    out.pop(k + 2)
                    continue
            k += 1
        i = 0
        while i + 2 < len(out) + 1 and i + 2 <= len(out) - 1:
            a, loop, test = out[i], out[i + 1], out[i + 2]
            ok = isinstance(a, ast.Assign) and len(a.targets) == 1 and isinstance(a.targets[0], ast.Name) and isinstance(a.value, ast.Constant) \
                and a.value.value is None and isinstance(loop, ast.For) and not loop.orelse and isinstance(test, ast.If)
            done = False
            if ok:
                m = a.targets[0].id
                t = test.test
                pos = isinstance(t, ast.Compare) and len(t.ops) == 1 and isinstance(t.left, ast.Name) and t.left.id == m \
                    and isinstance(t.comparators[0], ast.Constant) and t.comparators[0].value is None
                found_body = None
                if pos and isinstance(t.ops[0], ast.IsNot):
                    found_body, missing = test.body, test.orelse
                elif pos and isinstance(t.ops[0], ast.Is):
                    found_body, missing = test.orelse, test.body
                sets = []

                def scan(blk):
                    k = 0
                    while k < len(blk):
                        s2 = blk[k]
                        if isinstance(s2, ast.Assign) and len(s2.targets) == 1 and isinstance(s2.targets[0], ast.Name) and s2.targets[0].id == m:
                            if k + 2 == len(blk) and isinstance(blk[k + 1], ast.Break):
                                sets.append((blk, k))
                                k += 2
                                continue
                            return False
                        if isinstance(s2, ast.If):
                            if any(isinstance(x, ast.Name) and x.id == m for x in ast.walk(s2.test)):
                                return False
                            if not scan(s2.body) or not scan(s2.orelse):
                                return False
                        elif any(isinstance(x, ast.Name) and x.id == m for x in ast.walk(s2)) or isinstance(s2, ast.Break):
                            return False
                        k += 1
                    return True
                rest = out[i + 3:]
                is_last = top and not rest
                if found_body and (terminal(found_body) or is_last) and scan(loop.body) and sets \
                        and not any(isinstance(x, (ast.For, ast.While)) for s2 in loop.body for x in ast.walk(s2)) \
                        and not any(isinstance(x, (ast.Break, ast.Continue)) for s2 in found_body for x in ast.walk(s2)) \
                        and not any(isinstance(x, ast.Name) and x.id == m for s2 in list(missing) + rest for x in ast.walk(s2)):
                    for blk, k in sets:
                        fb = copy.deepcopy(found_body)
                        if not terminal(fb):
                            fb.append(ast.copy_location(ast.Return(value=None), fb[-1]))
                        v = blk[k].value
                        uses = [x for s2 in fb for x in ast.walk(s2) if isinstance(x, ast.Name) and x.id == m]
                        subs = [x for s2 in fb for x in ast.walk(s2) if isinstance(x, ast.Subscript) and isinstance(x.value, ast.Name)
                                and x.value.id == m and isinstance(x.slice, ast.Constant) and isinstance(x.slice.value, int)
                                and isinstance(x.ctx, ast.Load)]
                        if isinstance(v, ast.Tuple) and all(isinstance(e, ast.Name) for e in v.elts) and uses and len(uses) == len(subs) \
                                and all(0 <= x.slice.value < len(v.elts) for x in subs):
                            class R(ast.NodeTransformer):
                                def visit_Subscript(self, node):
                                    if any(node is x for x in subs):
                                        return ast.copy_location(ast.Name(id=v.elts[node.slice.value].id, ctx=ast.Load()), node)
                                    return self.generic_visit(node)
                            fb = [R().visit(s2) for s2 in fb]
                            blk[k:k + 2] = fb
                        elif isinstance(v, ast.Name) and uses:
                            class R2(ast.NodeTransformer):
                                def visit_Name(self, node):
                                    if node.id == m and isinstance(node.ctx, ast.Load):
                                        return ast.copy_location(ast.Name(id=v.id, ctx=ast.Load()), node)
                                    return node
                            fb = [R2().visit(s2) for s2 in fb]
                            blk[k:k + 2] = fb
                        else:
                            blk[k + 1:k + 2] = fb
                    out[i:i + 3] = [loop] + list(missing)
                    n[0] += 1
                    done = True
            if not done:
                i += 1
        return out

    def visit(node, top):
        for fld in ("body", "orelse", "finalbody"):
            blk = getattr(node, fld, None)
            if isinstance(blk, list) and blk and isinstance(blk[0], ast.stmt):
                for st in blk:
                    visit(st, False)
                is_fn_body = isinstance(node, (ast.FunctionDef, ast.AsyncFunctionDef)) and fld == "body"
                setattr(node, fld, rewrite(blk, is_fn_body))
        for h in getattr(node, "handlers", []) or []:
            for st in h.body:
                visit(st, False)
            h.body = rewrite(h.body, False)
    visit(tree, False)
    if n[0]:
        ast.fix_missing_locations(tree)
    return n[0]


def inline_local_closures(tree, modname=None):
    """a nested `def g(..)` that is only ever called directly by its enclosing function (never passed around, no nonlocal) is
    expanded at its call sites like a private helper: its free variables are the enclosing function's locals either way"""
    total = 0
    import json as _json
    import os as _os
    try:
        reference = _json.load(open(_os.path.join(_os.path.dirname(_os.path.abspath(__file__)), "api_reference.json")))
    except (OSError, ValueError):
        return 0
    quals = {}
    toplevel = {q for q in reference if q.count(".") == 1}
    # a nested helper of today's tree keeps its role when the function around it is split or renamed
    ref_nested = {q.rsplit(".", 1)[1] for q in reference if ":" not in q and "." in q and q.rsplit(".", 1)[0] in reference}

    def walk(node, prefix):
        for ch in ast.iter_child_nodes(node):
            if isinstance(ch, (ast.FunctionDef, ast.AsyncFunctionDef)):
                quals[ch] = prefix + "." + ch.name
                walk(ch, prefix + "." + ch.name)
            elif isinstance(ch, ast.ClassDef):
                walk(ch, prefix + "." + ch.name)
            else:
                walk(ch, prefix)
    walk(tree, modname or "?")
    for F in [n for n in ast.walk(tree) if isinstance(n, ast.FunctionDef)]:
        for G in [st for st in F.body if isinstance(st, ast.FunctionDef)]:
            if modname is None or quals.get(G) in reference or G.name in ref_nested:
                continue      # closures of the reference tree are anchors of rules (the writer's per-cell helpers): kept as written
            if G.decorator_list or any(isinstance(x, (ast.Nonlocal, ast.Global)) for x in ast.walk(G)):
                continue
            uses = [n for n in ast.walk(F) if isinstance(n, ast.Name) and n.id == G.name]
            calls = [c for c in ast.walk(F) if isinstance(c, ast.Call) and isinstance(c.func, ast.Name) and c.func.id == G.name]
            if not calls or len(uses) != len(calls):
                continue
            if any(c is x for c in calls for inner in ast.walk(F) if isinstance(inner, (ast.FunctionDef, ast.Lambda)) and inner is not F
                   for x in ast.walk(inner)):
                continue      # called from another nested function (or from itself)
            if any(isinstance(x, ast.Name) and x.id == G.name and isinstance(x.ctx, ast.Store) for x in ast.walk(F)):
                continue
            tmpname = "_lc_%s" % G.name.strip("_")
            backup_body = copy.deepcopy(F.body)
            Gc = copy.deepcopy(G)
            Gc.name = tmpname
            if not _inlinable(Gc, force=True):
                continue
            idx = F.body.index(G)
            for c in calls:
                c.func.id = tmpname
            F.body.pop(idx)
            if not F.body:
                F.body = backup_body
                continue
            mod = ast.Module(body=[Gc, F], type_ignores=[])
            n = inline_helpers(mod)
            left = [c for c in ast.walk(F) if isinstance(c, ast.Call) and isinstance(c.func, ast.Name) and c.func.id == tmpname]
            if left or not n:
                F.body = backup_body
                continue
            total += n
    if total:
        ast.fix_missing_locations(tree)
    return total


def _sink_tuple_results(tree):
    """`if c: tmp = (a, b) else: tmp = (c, d)` followed by `x, y = tmp` (tmp an inliner temporary read nowhere else) ->
    `if c: x = a; y = b else: x = c; y = d`: the tuple that carried several results out of an expanded helper disappears"""
    n = 0

    def tails(st, name, acc):
        """the `name = (..)` assignments in tail position of st; False when name is touched anywhere else in st"""
        if isinstance(st, ast.Assign) and len(st.targets) == 1 and isinstance(st.targets[0], ast.Name) and st.targets[0].id == name:
            if any(isinstance(x, ast.Name) and x.id == name for x in ast.walk(st.value)):
                return False
            acc.append(st)
            return True
        if isinstance(st, ast.If):
            for blk in (st.body, st.orelse):
                if any(isinstance(x, ast.Name) and x.id == name for x in ast.walk(st.test)):
                    return False
                for s2 in blk[:-1]:
                    if any(isinstance(x, ast.Name) and x.id == name for x in ast.walk(s2)):
                        return False
                if blk and not tails(blk[-1], name, acc):
                    return False
            return True
        return not any(isinstance(x, ast.Name) and x.id == name for x in ast.walk(st))

    def fn(stmts):
        nonlocal n
        out = list(stmts)
        i = 1
        while i < len(out):
            st = out[i]
            single = isinstance(st, ast.Assign) and len(st.targets) == 1 and isinstance(st.targets[0], ast.Name) \
                and isinstance(st.value, ast.Name) and st.value.id.startswith("__ret_") and isinstance(out[i - 1], ast.If)
            if single or (isinstance(st, ast.Assign) and len(st.targets) == 1 and isinstance(st.targets[0], ast.Tuple)
                          and all(isinstance(t, ast.Name) for t in st.targets[0].elts) and isinstance(st.value, ast.Name)
                          and _TEMP_NAME.match(st.value.id)):
                name = st.value.id
                tg = [st.targets[0].id] if single else [t.id for t in st.targets[0].elts]
                acc = []
                ok = tails(out[i - 1], name, acc) and acc
                if ok and any(isinstance(x, ast.Name) and x.id == name for s2 in out[i + 1:] + out[:i - 1] for x in ast.walk(s2)):
                    ok = False
                if ok and single:
                    # y = tmp: every `tmp = e` in tail position becomes `y = e` (e may read y: it is evaluated before the store)
                    for a in acc:
                        a.value = ast.copy_location(ast.Tuple(elts=[a.value], ctx=ast.Load()), a.value)
                if ok and not all(isinstance(a.value, ast.Tuple) and len(a.value.elts) == len(tg) for a in acc):
                    ok = False
                if ok:
                    for a in acc:
                        for j, e in enumerate(a.value.elts):
                            if any(isinstance(x, ast.Name) and x.id in tg[:j] for x in ast.walk(e)):
                                ok = False
                if ok:
                    def rewrite(blk_owner):
                        for fld in ("body", "orelse"):
                            blk = getattr(blk_owner, fld, None)
                            if not isinstance(blk, list):
                                continue
                            for k, s2 in enumerate(list(blk)):
                                if any(s2 is a for a in acc):
                                    blk[k:k + 1] = [ast.copy_location(ast.Assign(targets=[ast.Name(id=t, ctx=ast.Store())], value=e), s2)
                                                    for t, e in zip(tg, s2.value.elts)]
                                elif isinstance(s2, ast.If):
                                    rewrite(s2)
                    prev = out[i - 1]
                    if any(prev is a for a in acc):
                        out[i - 1:i + 1] = [ast.copy_location(ast.Assign(targets=[ast.Name(id=t, ctx=ast.Store())], value=e), prev)
                                            for t, e in zip(tg, prev.value.elts)]
                    else:
                        rewrite(prev)
                        out.pop(i)
                    n += 1
                    continue
            i += 1
        return out
    _map_blocks(tree, fn)
    if n:
        ast.fix_missing_locations(tree)
    return n


def _thread_bool_results(tree):
    """an if-tree whose every tail is `tmp = <constant>` (tmp an inliner temporary) directly followed by `if tmp: A else: B`
    -> the tails become A resp. B (jump threading): a predicate helper that was expanded reads like the inline tests again"""
    n = [0]

    def tails(st, name, acc):
        if isinstance(st, ast.Assign) and len(st.targets) == 1 and isinstance(st.targets[0], ast.Name) and st.targets[0].id == name:
            if not isinstance(st.value, ast.Constant):
                return False
            acc.append(st)
            return True
        if isinstance(st, ast.If):
            if any(isinstance(x, ast.Name) and x.id == name for x in ast.walk(st.test)):
                return False
            for blk in (st.body, st.orelse):
                if not blk:
                    return False
                for s2 in blk[:-1]:
                    if any(isinstance(x, ast.Name) and x.id == name for x in ast.walk(s2)):
                        return False
                if not tails(blk[-1], name, acc):
                    return False
            return True
        return False

    def fn(stmts):
        out = list(stmts)
        i = 1
        while i < len(out):
            st = out[i]
            t = st.test if isinstance(st, ast.If) else None
            neg = False
            if isinstance(t, ast.UnaryOp) and isinstance(t.op, ast.Not):
                t, neg = t.operand, True
            if isinstance(t, ast.Name) and t.id.startswith("__ret_") and isinstance(out[i - 1], ast.If):
                name = t.id
                acc = []
                ok = tails(out[i - 1], name, acc) and acc
                others = [x for k, s2 in enumerate(out) if k not in (i - 1, i) for x in ast.walk(s2) if isinstance(x, ast.Name) and x.id == name]
                inner = [x for blk in (st.body, st.orelse) for s2 in blk for x in ast.walk(s2) if isinstance(x, ast.Name) and x.id == name]
                if ok and not others and not inner:
                    def rewrite(owner):
                        for fld in ("body", "orelse"):
                            blk = getattr(owner, fld, None)
                            if not isinstance(blk, list):
                                continue
                            for k, s2 in enumerate(list(blk)):
                                if any(s2 is a for a in acc):
                                    truth = bool(s2.value.value) != neg
                                    rep = copy.deepcopy(st.body if truth else st.orelse)
                                    blk[k:k + 1] = rep or [ast.copy_location(ast.Pass(), s2)]
                                elif isinstance(s2, ast.If):
                                    rewrite(s2)
                    rewrite(out[i - 1])
                    out.pop(i)
                    n[0] += 1
                    continue
            i += 1
        return out
    _map_blocks(tree, fn)
    if n[0]:
        ast.fix_missing_locations(tree)
    return n[0]


import re as _re_mod
_TEMP_NAME = _re_mod.compile(r"^(__ret_\w+|\w+__[A-Za-z_]+\d+)$")


def _collapse_result_copies(tree):
    # temporaries introduced by the inliner that are bound once and read once, in the very next statement, are substituted
    for node in ast.walk(tree):
        for field in ("body", "orelse", "finalbody"):
            blk = getattr(node, field, None)
            if not (isinstance(blk, list) and blk and isinstance(blk[0], ast.stmt)):
                continue
            i = 0
            while i + 1 < len(blk):
                a, b = blk[i], blk[i + 1]
                if isinstance(a, ast.Assign) and len(a.targets) == 1 and isinstance(a.targets[0], ast.Name) and _TEMP_NAME.match(a.targets[0].id) \
                        and not isinstance(b, (ast.For, ast.While, ast.If, ast.Try, ast.With, ast.FunctionDef, ast.ClassDef)):
                    nm = a.targets[0].id
                    uses_next = [x for x in ast.walk(b) if isinstance(x, ast.Name) and x.id == nm and isinstance(x.ctx, ast.Load)]
                    later = any(isinstance(x, ast.Name) and x.id == nm for st in blk[i + 2:] for x in ast.walk(st))
                    stores_next = any(isinstance(x, ast.Name) and x.id == nm and isinstance(x.ctx, ast.Store) for x in ast.walk(b))
                    simple = isinstance(a.value, (ast.Name, ast.Constant)) or (
                        isinstance(a.value, (ast.Attribute, ast.Subscript)) and not any(isinstance(x, ast.Call) for x in ast.walk(a.value)))
                    if len(uses_next) == 1 and not later and not stores_next and simple:
                        value = a.value

                        class S(ast.NodeTransformer):
                            def visit_Name(self, n_):
                                if n_.id == nm and isinstance(n_.ctx, ast.Load):
                                    return ast.copy_location(value, n_)
                                return n_
                        blk[i + 1] = S().visit(b)
                        del blk[i]
                        i = max(i - 1, 0)
                        continue
                i += 1
    for node in ast.walk(tree):
        for field in ("body", "orelse", "finalbody"):
            blk = getattr(node, field, None)
            if not (isinstance(blk, list) and blk and isinstance(blk[0], ast.stmt)):
                continue
            i = 0
            while i + 1 < len(blk):
                a, b = blk[i], blk[i + 1]
                if (isinstance(a, ast.Assign) and len(a.targets) == 1 and isinstance(a.targets[0], ast.Name) and a.targets[0].id.startswith("__ret_")
                        and isinstance(b, (ast.Assign, ast.Return, ast.Expr)) and isinstance(getattr(b, "value", None), ast.Name)
                        and b.value.id == a.targets[0].id):
                    b.value = a.value
                    del blk[i]
                    continue
                i += 1


# ------------------------------------------------------------------------------------------------ expression helpers

def _expr_body(fn):
    """the expression of a helper whose body is `[docstring]; return <expr>`"""
    body = list(fn.body)
    if body and isinstance(body[0], ast.Expr) and isinstance(body[0].value, ast.Constant) and isinstance(body[0].value.value, str):
        body = body[1:]
    if len(body) == 1 and isinstance(body[0], ast.Return) and body[0].value is not None:
        return body[0].value
    return None


def inline_expression_helpers(tree, extern=None):
    """substitute calls of private one-expression helpers (`def _f(a, b): return <expr>`) wherever they occur outside
    lambdas (raise statements, conditions, arguments, comprehensions): `raise self._err(k)` -> `raise KeyError(... k ...)`"""
    helpers, methods = {}, {}

    def ok(fn):
        if not fn.name.startswith("_") or fn.name.startswith("__") or fn.name in KEEP:
            return False
        if any(not (isinstance(d, ast.Name) and d.id in ("staticmethod", "classmethod")) for d in fn.decorator_list):
            return False
        a = fn.args
        if a.vararg or a.kwarg or a.kwonlyargs or getattr(a, "posonlyargs", []):
            return False
        e = _expr_body(fn)
        if e is None:
            return False
        for sub in ast.walk(e):
            if isinstance(sub, (ast.Yield, ast.YieldFrom, ast.Await, ast.Lambda, ast.NamedExpr)):
                return False
            if isinstance(sub, ast.Call) and isinstance(sub.func, ast.Name) and sub.func.id == fn.name:
                return False
            if isinstance(sub, ast.Call) and isinstance(sub.func, ast.Attribute) and sub.func.attr == fn.name:
                return False
        return True

    for nm, node in (extern or {}).items():
        if ok(node):
            helpers[nm] = node
    for node in tree.body:
        if isinstance(node, ast.FunctionDef) and ok(node):
            helpers[node.name] = node
        elif isinstance(node, ast.ClassDef):
            for sub in node.body:
                if isinstance(sub, ast.FunctionDef) and ok(sub):
                    methods[(node.name, sub.name)] = sub
                elif isinstance(sub, ast.FunctionDef) and not sub.name.startswith("_") and not sub.decorator_list and len(sub.args.args) == 1 \
                        and not sub.args.defaults and sub.name not in KEEP:
                    # public accessor without arguments whose body is one expression (`def keys(self): return [c.mnemonic for ..]`):
                    # `self.keys()` inside the class reads like the expression itself (the method stays where it is)
                    sub.name = "_" + sub.name
                    try:
                        good = ok(sub)
                    finally:
                        sub.name = sub.name[1:]
                    if good:
                        methods[(node.name, sub.name)] = sub
    if not helpers and not methods:
        return 0
    n = [0]

    def substitute(fn, call, is_method):
        params = [a.arg for a in fn.args.args]
        static = any(isinstance(d, ast.Name) and d.id == "staticmethod" for d in fn.decorator_list)
        binding = {}
        if is_method and not static:
            binding[params[0]] = call.func.value
            params = params[1:]
        elif is_method and static:
            pass
        if len(call.args) > len(params):
            return None
        for p_, a in zip(params, call.args):
            if isinstance(a, ast.Starred):
                return None
            binding[p_] = a
        for k in call.keywords:
            if k.arg is None or k.arg not in params or k.arg in binding:
                return None
            binding[k.arg] = k.value
        defaults = fn.args.defaults
        for p_, d in zip(fn.args.args[len(fn.args.args) - len(defaults):], defaults):
            if p_.arg not in binding:
                binding[p_.arg] = d
        if any(p_ not in binding for p_ in params):
            return None
        expr = copy.deepcopy(_expr_body(fn))
        # names bound inside the expression (comprehension targets) must not collide with the substituted arguments
        bound = {x.id for x in ast.walk(expr) if isinstance(x, ast.Name) and isinstance(x.ctx, ast.Store)}
        for a in binding.values():
            if any(isinstance(x, ast.Name) and x.id in bound for x in ast.walk(a)):
                return None

        class S(ast.NodeTransformer):
            def visit_Name(self, node):
                if isinstance(node.ctx, ast.Load) and node.id in binding and node.id not in bound:
                    return copy.deepcopy(binding[node.id])
                return node
        return S().visit(expr)

    class T(ast.NodeTransformer):
        def __init__(self):
            self.cls = [None]
            self.fn = [None]

        def visit_ClassDef(self, node):
            self.cls.append(node.name)
            self.generic_visit(node)
            self.cls.pop()
            return node

        def visit_FunctionDef(self, node):
            self.fn.append(node)
            self.generic_visit(node)
            self.fn.pop()
            return node

        def visit_Lambda(self, node):
            return node

        def visit_Call(self, node):
            self.generic_visit(node)
            f = node.func
            fn, is_m = None, False
            if isinstance(f, ast.Name) and f.id in helpers:
                fn = helpers[f.id]
            elif isinstance(f, ast.Attribute) and isinstance(f.value, ast.Name) and f.value.id in ("self", "cls") and self.cls[-1] \
                    and (self.cls[-1], f.attr) in methods:
                fn, is_m = methods[(self.cls[-1], f.attr)], True
            if fn is None or fn is self.fn[-1]:
                return node
            new = substitute(fn, node, is_m)
            if new is None:
                return node
            n[0] += 1
            return ast.copy_location(new, node)
    T().visit(tree)
    if n[0]:
        ast.fix_missing_locations(tree)
    return n[0]


# ------------------------------------------------------------------------------------------------ loop re-sugaring

def _is_iter_assign(st):
    return (isinstance(st, ast.Assign) and len(st.targets) == 1 and isinstance(st.targets[0], ast.Name)
            and isinstance(st.value, ast.Call) and isinstance(st.value.func, ast.Name) and st.value.func.id == "iter"
            and len(st.value.args) == 1 and not st.value.keywords)


def _explicit_next_loop(wh, itname):
    """`while True: try: v = next(it) except StopIteration: break|return ...; BODY` -> (target, handler body, BODY)"""
    if not (isinstance(wh, ast.While) and isinstance(wh.test, ast.Constant) and wh.test.value is True and not wh.orelse and wh.body):
        return None
    tr = wh.body[0]
    if not (isinstance(tr, ast.Try) and len(tr.body) == 1 and len(tr.handlers) == 1 and not tr.orelse and not tr.finalbody):
        return None
    a = tr.body[0]
    if not (isinstance(a, ast.Assign) and len(a.targets) == 1 and isinstance(a.value, ast.Call)
            and isinstance(a.value.func, ast.Name) and a.value.func.id == "next" and len(a.value.args) == 1
            and isinstance(a.value.args[0], ast.Name) and a.value.args[0].id == itname):
        return None
    h = tr.handlers[0]
    if not (isinstance(h.type, ast.Name) and h.type.id == "StopIteration" and h.name is None and len(h.body) == 1
            and isinstance(h.body[0], (ast.Break, ast.Return))):
        return None
    body = wh.body[1:]
    for st in body:
        for sub in ast.walk(st):
            if isinstance(sub, ast.Name) and sub.id == itname:
                return None
    return a.targets[0], h.body[0], body


def _counter_init(st):
    """`i = <int literal>` -> (name, value)"""
    if isinstance(st, ast.Assign) and len(st.targets) == 1 and isinstance(st.targets[0], ast.Name):
        v = st.value
        if isinstance(v, ast.Constant) and isinstance(v.value, int) and not isinstance(v.value, bool):
            return st.targets[0].id, v.value
        if isinstance(v, ast.UnaryOp) and isinstance(v.op, ast.USub) and isinstance(v.operand, ast.Constant) and isinstance(v.operand.value, int):
            return st.targets[0].id, -v.operand.value
    return None


def _is_increment(st, name):
    if isinstance(st, ast.AugAssign) and isinstance(st.target, ast.Name) and st.target.id == name and isinstance(st.op, ast.Add) \
            and isinstance(st.value, ast.Constant) and st.value.value == 1:
        return True
    if isinstance(st, ast.Assign) and len(st.targets) == 1 and isinstance(st.targets[0], ast.Name) and st.targets[0].id == name \
            and isinstance(st.value, ast.BinOp) and isinstance(st.value.op, ast.Add):
        l, r = st.value.left, st.value.right
        for a, b in ((l, r), (r, l)):
            if isinstance(a, ast.Name) and a.id == name and isinstance(b, ast.Constant) and b.value == 1:
                return True
    return False


def resugar_loops(tree):
    """rewrite the explicit iterator protocol (`it = iter(X)` + `while True: try: v = next(it) except StopIteration: break`)
    back into `for v in X:` (with `enumerate` when a counter is stepped first thing in the body, and a `for ... else`
    when exhaustion returns)."""
    n = [0]

    def rewrite(stmts):
        i = 0
        while i < len(stmts):
            st = stmts[i]
            if _is_iter_assign(st):
                itname = st.targets[0].id
                j = i + 1
                counter = None
                if j < len(stmts) and _counter_init(stmts[j]):
                    counter = _counter_init(stmts[j])
                    j += 1
                m = _explicit_next_loop(stmts[j], itname) if j < len(stmts) else None
                # the iterator must not be used after the loop either
                later = any(isinstance(sub, ast.Name) and sub.id == itname for s2 in stmts[j + 1:] for sub in ast.walk(s2))
                if m and not later:
                    target, onstop, body = m
                    iterable = st.value.args[0]
                    if counter and body and _is_increment(body[0], counter[0]):
                        body = body[1:]
                        call = ast.Call(func=ast.Name(id="enumerate", ctx=ast.Load()), args=[iterable], keywords=[])
                        if counter[1] + 1 != 0:
                            call.args.append(ast.Constant(value=counter[1] + 1))
                        tgt = ast.Tuple(elts=[ast.Name(id=counter[0], ctx=ast.Store()), target], ctx=ast.Store())
                        iterable = call
                        target = tgt
                        keep_pre = []
                    elif counter:
                        keep_pre = [stmts[i + 1]]
                    else:
                        keep_pre = []
                    new = ast.For(target=target, iter=iterable, body=body or [ast.Pass()],
                                  orelse=[onstop] if isinstance(onstop, ast.Return) else [], type_comment=None)
                    ast.copy_location(new, stmts[j])
                    ast.fix_missing_locations(new)
                    stmts[i:j + 1] = keep_pre + [new]
                    n[0] += 1
                    continue
            i += 1
        for st in stmts:
            for fld in ("body", "orelse", "finalbody"):
                sub = getattr(st, fld, None)
                if isinstance(sub, list) and sub and isinstance(sub[0], ast.stmt):
                    rewrite(sub)
            for h in getattr(st, "handlers", []) or []:
                rewrite(h.body)
    rewrite(tree.body)
    n[0] += _fold_unpacking(tree)
    return n[0]


def _uses(stmts, name):
    return any(isinstance(sub, ast.Name) and sub.id == name for st in stmts for sub in ast.walk(st))


def _fold_unpacking(tree):
    """`for e in X: a, b = e; BODY` (e not used again) -> `for a, b in X: BODY`;
    `for i in range(len(X)): a, b = X[i]; BODY` (i not used again) -> `for a, b in X: BODY`"""
    n = 0
    for node in ast.walk(tree):
        if not (isinstance(node, ast.For) and isinstance(node.target, ast.Name) and node.body):
            continue
        first = node.body[0]
        if not (isinstance(first, ast.Assign) and len(first.targets) == 1 and isinstance(first.targets[0], (ast.Tuple, ast.Name))):
            continue
        var = node.target.id
        rest = node.body[1:]
        if _uses([first.targets[0]], var):
            continue
        it = node.iter
        v = first.value
        is_range_len = (isinstance(it, ast.Call) and isinstance(it.func, ast.Name) and it.func.id == "range" and len(it.args) == 1
                        and isinstance(it.args[0], ast.Call) and isinstance(it.args[0].func, ast.Name) and it.args[0].func.id == "len"
                        and len(it.args[0].args) == 1 and isinstance(it.args[0].args[0], (ast.Name, ast.Attribute)))
        if _uses(rest, var):
            # `for i in range(len(X)): T = X[i]; BODY(i)` -> `for i, T in enumerate(X): BODY(i)`
            if is_range_len and isinstance(v, ast.Subscript) and isinstance(v.slice, ast.Name) and v.slice.id == var \
                    and ast.dump(v.value) == ast.dump(it.args[0].args[0]) \
                    and not (isinstance(v.value, ast.Name) and any(
                        isinstance(x, ast.Name) and x.id == v.value.id and isinstance(x.ctx, ast.Store) for st in rest for x in ast.walk(st))):
                node.iter = ast.Call(func=ast.Name(id="enumerate", ctx=ast.Load()), args=[it.args[0].args[0]], keywords=[])
                node.target = ast.Tuple(elts=[ast.Name(id=var, ctx=ast.Store()), first.targets[0]], ctx=ast.Store())
                node.body = rest
                n += 1
            continue
        if not is_range_len and isinstance(v, ast.Subscript) and isinstance(v.slice, ast.Name) and v.slice.id == var \
                and isinstance(v.value, ast.Name) and isinstance(first.targets[0], ast.Tuple) and not _uses([it], v.value.id):
            # `for j in J: T = X[j]; BODY` (j not used again) -> `for T in [X[j] for j in J]: BODY`
            comp = ast.ListComp(elt=v, generators=[ast.comprehension(target=ast.Name(id=var, ctx=ast.Store()), iter=it, ifs=[], is_async=0)])
            node.iter = comp
            node.target = first.targets[0]
            node.body = rest or [ast.Pass()]
            n += 1
            continue
        if isinstance(first.value, ast.Name) and first.value.id == var and isinstance(first.targets[0], ast.Tuple):
            node.target = first.targets[0]
            node.body = rest or [ast.Pass()]
            n += 1
            continue
        it = node.iter
        if (isinstance(it, ast.Call) and isinstance(it.func, ast.Name) and it.func.id == "range" and len(it.args) == 1
                and isinstance(it.args[0], ast.Call) and isinstance(it.args[0].func, ast.Name) and it.args[0].func.id == "len"
                and len(it.args[0].args) == 1 and isinstance(it.args[0].args[0], (ast.Name, ast.Attribute))):
            seq = it.args[0].args[0]
            v = first.value
            if (isinstance(v, ast.Subscript) and isinstance(v.slice, ast.Name) and v.slice.id == var
                    and ast.dump(v.value) == ast.dump(seq)):
                # the sequence must not be rebound / mutated in the body for this to be the same loop; accept when the
                # body does not mention it at all
                if isinstance(seq, ast.Name) and _uses(rest, seq.id):
                    continue
                node.target = first.targets[0]
                node.iter = seq
                node.body = rest or [ast.Pass()]
                n += 1
    if n:
        ast.fix_missing_locations(tree)
    return n


# ------------------------------------------------------------------------------------------------ statement lowering

def _map_blocks(tree, fn):
    """apply fn(stmts) -> new stmts to every statement list of the tree, innermost first"""
    def rec(node):
        for fld in ("body", "orelse", "finalbody"):
            blk = getattr(node, fld, None)
            if isinstance(blk, list) and blk and isinstance(blk[0], ast.stmt):
                for st in blk:
                    rec(st)
                setattr(node, fld, fn(blk))
        for h in getattr(node, "handlers", []) or []:
            for st in h.body:
                rec(st)
            h.body = fn(h.body)
        for c in getattr(node, "cases", []) or []:
            for st in c.body:
                rec(st)
            c.body = fn(c.body)
    rec(tree)


def _pattern_test(pat, subj):
    """test expression equivalent to a simple match pattern on subject expression `subj`, or None"""
    def S():
        return copy.deepcopy(subj)
    if isinstance(pat, ast.MatchValue):
        return ast.Compare(left=S(), ops=[ast.Eq()], comparators=[copy.deepcopy(pat.value)])
    if isinstance(pat, ast.MatchSingleton):
        return ast.Compare(left=S(), ops=[ast.Is()], comparators=[ast.Constant(value=pat.value)])
    if isinstance(pat, ast.MatchOr):
        parts = [_pattern_test(p_, subj) for p_ in pat.patterns]
        if any(x is None for x in parts):
            return None
        return ast.BoolOp(op=ast.Or(), values=parts)
    if isinstance(pat, ast.MatchClass) and not pat.patterns and not pat.kwd_patterns:
        return ast.Call(func=ast.Name(id="isinstance", ctx=ast.Load()), args=[S(), copy.deepcopy(pat.cls)], keywords=[])
    if isinstance(pat, ast.MatchAs) and pat.pattern is None and pat.name is None:
        return ast.Constant(value=True)
    return None


def desugar_match(tree):
    """`match X:` over literal / singleton / class() / `_` patterns (with optional guards) -> an if/elif chain"""
    n = [0]

    def fn(stmts):
        out = []
        for st in stmts:
            if not isinstance(st, ast.Match):
                out.append(st)
                continue
            subj = st.subject
            pre = []
            if not isinstance(subj, (ast.Name, ast.Attribute, ast.Constant)):
                n[0] += 1
                tmp = "__match%d" % n[0]
                pre = [ast.copy_location(ast.Assign(targets=[ast.Name(id=tmp, ctx=ast.Store())], value=subj), st)]
                subj = ast.Name(id=tmp, ctx=ast.Load())
            tests = []
            ok = True
            for c in st.cases:
                t = _pattern_test(c.pattern, subj)
                if t is None:
                    ok = False
                    break
                if c.guard is not None:
                    t = c.guard if (isinstance(t, ast.Constant) and t.value is True) else ast.BoolOp(op=ast.And(), values=[t, c.guard])
                tests.append((t, c.body))
            if not ok:
                out.append(st)
                continue
            chain = None
            for t, body in reversed(tests):
                if isinstance(t, ast.Constant) and t.value is True:
                    chain = list(body)
                else:
                    node = ast.If(test=t, body=list(body), orelse=chain or [])
                    ast.copy_location(node, body[0])
                    chain = [node]
            n[0] += 1
            for x in pre + (chain or []):
                ast.copy_location(x, st) if not hasattr(x, "lineno") else None
            out.extend(pre + (chain or [ast.Pass()]))
        return out
    _map_blocks(tree, fn)
    if n[0]:
        ast.fix_missing_locations(tree)
    return n[0]


def lower_suppress(tree):
    """`with contextlib.suppress(E...): BODY` -> `try: BODY except (E...): pass`"""
    n = [0]

    def fn(stmts):
        out = []
        for st in stmts:
            if isinstance(st, ast.With) and len(st.items) == 1 and st.items[0].optional_vars is None:
                ce = st.items[0].context_expr
                if isinstance(ce, ast.Call) and ast.unparse(ce.func) in ("contextlib.suppress", "suppress") and ce.args and not ce.keywords:
                    typ = ce.args[0] if len(ce.args) == 1 else ast.Tuple(elts=list(ce.args), ctx=ast.Load())
                    h = ast.ExceptHandler(type=typ, name=None, body=[ast.Pass()])
                    new = ast.Try(body=st.body, handlers=[h], orelse=[], finalbody=[])
                    ast.copy_location(new, st)
                    ast.copy_location(h, st)
                    out.append(new)
                    n[0] += 1
                    continue
            out.append(st)
        return out
    _map_blocks(tree, fn)
    if n[0]:
        ast.fix_missing_locations(tree)
    return n[0]


def _first_evaluated_walrus(test):
    """the NamedExpr that is evaluated first and unconditionally when `test` is evaluated: returns (parent setter, walrus) or None"""
    if isinstance(test, ast.NamedExpr) and isinstance(test.target, ast.Name):
        return ("self", None, test)
    if isinstance(test, ast.Compare) and isinstance(test.left, ast.NamedExpr) and isinstance(test.left.target, ast.Name):
        return ("left", test, test.left)
    if isinstance(test, ast.UnaryOp) and isinstance(test.op, ast.Not):
        r = _first_evaluated_walrus(test.operand)
        if r and r[0] == "self":
            return ("operand", test, r[2])
        return r
    if isinstance(test, ast.BoolOp):
        r = _first_evaluated_walrus(test.values[0])
        if r and r[0] == "self":
            return ("value0", test, r[2])
        return r
    return None


def lower_walrus_if(tree):
    """`if (x := E): ...` / `if (x := E) is None: ...` -> `x = E` ; `if x ...:`   (the first operand of an `if` test is
    evaluated exactly once and unconditionally)"""
    n = [0]

    def fn(stmts):
        out = []
        for st in stmts:
            r = _first_evaluated_walrus(st.test) if isinstance(st, ast.If) else None
            if r is not None:
                how, holder, w = r
                a = ast.Assign(targets=[ast.Name(id=w.target.id, ctx=ast.Store())], value=w.value)
                ast.copy_location(a, st)
                nm = ast.copy_location(ast.Name(id=w.target.id, ctx=ast.Load()), w)
                if how == "self":
                    st.test = nm
                elif how == "left":
                    holder.left = nm
                elif how == "operand":
                    holder.operand = nm
                elif how == "value0":
                    holder.values[0] = nm
                out.extend([a, st])
                n[0] += 1
                continue
            out.append(st)
        return out
    _map_blocks(tree, fn)
    if n[0]:
        ast.fix_missing_locations(tree)
    return n[0]


def lower_ifexp(tree):
    """`x = A if c else B` / `return A if c else B` -> if/else statements (one canonical form for rules)"""
    n = [0]

    def fn(stmts):
        out = []
        for st in stmts:
            v = getattr(st, "value", None)
            if isinstance(st, (ast.Assign, ast.Return)) and isinstance(v, ast.IfExp):
                def mk(val):
                    if isinstance(st, ast.Return):
                        new = ast.Return(value=val)
                    else:
                        new = ast.Assign(targets=copy.deepcopy(st.targets), value=val)
                    return ast.copy_location(new, st)
                node = ast.If(test=v.test, body=[mk(v.body)], orelse=[mk(v.orelse)])
                ast.copy_location(node, st)
                out.extend(fn([node]) if isinstance(v.body, ast.IfExp) or isinstance(v.orelse, ast.IfExp) else [node])
                n[0] += 1
                continue
            out.append(st)
        # nested conditional expressions produced above
        res = []
        for st in out:
            if isinstance(st, ast.If):
                st.body = fn(st.body) if any(isinstance(getattr(x, "value", None), ast.IfExp) for x in st.body) else st.body
                st.orelse = fn(st.orelse) if any(isinstance(getattr(x, "value", None), ast.IfExp) for x in st.orelse) else st.orelse
            res.append(st)
        return res
    _map_blocks(tree, fn)
    if n[0]:
        ast.fix_missing_locations(tree)
    return n[0]


def propagate_param_copies(tree):
    """`local__helper7 = param` left behind by the inliner (a helper's local that was bound to what is, at this call site, a
    parameter of the caller which is never re-bound): the copy is the parameter"""
    import re as _re
    n = 0
    for fn in [x for x in ast.walk(tree) if isinstance(x, (ast.FunctionDef, ast.AsyncFunctionDef))]:
        stores = {}
        for sub in ast.walk(fn):
            if isinstance(sub, ast.Name) and isinstance(sub.ctx, (ast.Store, ast.Del)):
                stores[sub.id] = stores.get(sub.id, 0) + 1
            if isinstance(sub, (ast.Global, ast.Nonlocal)):
                for nm in sub.names:
                    stores[nm] = stores.get(nm, 0) + 5
        params = {a.arg for a in fn.args.args + fn.args.kwonlyargs}
        for st in [x for x in ast.walk(fn) if isinstance(x, ast.Assign)]:
            if not (len(st.targets) == 1 and isinstance(st.targets[0], ast.Name) and isinstance(st.value, ast.Name)):
                continue
            a, b = st.targets[0].id, st.value.id
            if a == b or not _re.search(r".__.+\d$", a) or stores.get(a) != 1 or stores.get(b, 0) != 0 or b not in params:
                continue
            for x in ast.walk(fn):
                if isinstance(x, ast.Name) and x.id == a and isinstance(x.ctx, ast.Load):
                    x.id = b
            st.targets[0].id = "__dead_" + a
            n += 1
    return n


def propagate_aliases(tree):
    """copy propagation of read-only local aliases of attribute chains: `curves = self.curves`, `well = las.well`,
    `lookup = orders.get` - bound once, at the top level of the function body, from a chain over a parameter / self / a local
    that is itself bound once; every later load of the alias is replaced by the chain"""
    total = [0]

    def chain_base(e):
        while isinstance(e, ast.Attribute) or (isinstance(e, ast.Subscript) and isinstance(e.slice, ast.Constant)):
            e = e.value
        return e if isinstance(e, ast.Name) else None

    for fn in [x for x in ast.walk(tree) if isinstance(x, (ast.FunctionDef, ast.AsyncFunctionDef))]:
        # binding census (not descending into nested defs for stores, but nested defs may read the alias)
        stores = {}
        for sub in ast.walk(fn):
            if isinstance(sub, ast.Name) and isinstance(sub.ctx, (ast.Store, ast.Del)):
                stores[sub.id] = stores.get(sub.id, 0) + 1
            if isinstance(sub, (ast.Global, ast.Nonlocal)):
                for nm in sub.names:
                    stores[nm] = stores.get(nm, 0) + 5
        params = {a.arg for a in fn.args.args + fn.args.kwonlyargs}
        blocks = []

        def collect(node):
            for fld in ("body", "orelse", "finalbody"):
                blk = getattr(node, fld, None)
                if isinstance(blk, list) and blk and isinstance(blk[0], ast.stmt):
                    blocks.append(blk)
                    for x in blk:
                        if not isinstance(x, (ast.FunctionDef, ast.AsyncFunctionDef, ast.ClassDef)):
                            collect(x)
            for h in getattr(node, "handlers", []) or []:
                blocks.append(h.body)
                for x in h.body:
                    collect(x)
        collect(fn)
        for blk, st in [(b, x) for b in blocks for x in list(b)]:
            if not (isinstance(st, ast.Assign) and len(st.targets) == 1 and isinstance(st.targets[0], ast.Name)
                    and (isinstance(st.value, ast.Attribute) or (isinstance(st.value, ast.Subscript) and isinstance(st.value.slice, ast.Constant)
                                                                and isinstance(st.value.value, ast.Attribute)))):
                continue
            if isinstance(st.value, ast.Subscript):
                # `item = self.well["STRT"]`: the container must not be re-bound or have that slot replaced later in the function
                ctxt = ast.unparse(st.value)
                if any(isinstance(x, ast.Subscript) and isinstance(x.ctx, (ast.Store, ast.Del)) and ast.unparse(x) == ctxt for x in ast.walk(fn)):
                    continue
                if any(isinstance(c_, ast.Call) and isinstance(c_.func, ast.Attribute) and c_.func.attr in ("pop", "insert", "append", "remove", "clear",
                       "__setitem__", "__delitem__", "set_item") and ast.unparse(c_.func.value) == ast.unparse(st.value.value) for c_ in ast.walk(fn)):
                    continue
            if blk is not fn.body:
                # nested binding: every load of the alias must come later in the same block (no use before / outside it),
                # and the binding must not sit in a loop body (one binding per iteration is still one value per use)
                idx0 = blk.index(st)
                inside = {id(x) for later in blk[idx0 + 1:] for x in ast.walk(later)}
                loads = [x for x in ast.walk(fn) if isinstance(x, ast.Name) and x.id == st.targets[0].id and isinstance(x.ctx, ast.Load)]
                if any(id(x) not in inside for x in loads):
                    continue
            alias = st.targets[0].id
            base = chain_base(st.value)
            if base is None or stores.get(alias, 0) != 1 or alias in params:
                continue
            if not (base.id in params and stores.get(base.id, 0) == 0 or stores.get(base.id, 0) == 1 and base.id not in params):
                continue
            # attributes of the chain must not be assigned in this function (e.g. `self.curves = ...`)
            chain_txt = ast.unparse(st.value)
            if any(isinstance(x, ast.Attribute) and isinstance(x.ctx, ast.Store) and ast.unparse(x) == chain_txt for x in ast.walk(fn)):
                continue
            value = st.value

            class R(ast.NodeTransformer):
                def visit_Name(self, node):
                    if node.id == alias and isinstance(node.ctx, ast.Load):
                        total[0] += 1
                        return ast.copy_location(copy.deepcopy(value), node)
                    return node
            idx = blk.index(st)
            for later in blk[idx + 1:]:
                R().visit(later)
    if total[0]:
        ast.fix_missing_locations(tree)
    return total[0]


def _literal_seq(e):
    """elements of a literal tuple/list (possibly sliced / indexed by constants), or None"""
    if isinstance(e, (ast.Tuple, ast.List)) and not any(isinstance(x, ast.Starred) for x in e.elts):
        return list(e.elts)
    if isinstance(e, ast.Subscript):
        base = _literal_seq(e.value)
        if base is None:
            return None
        sl = e.slice
        if isinstance(sl, ast.Slice) and all(b is None or (isinstance(b, ast.Constant) and isinstance(b.value, int)) or (
                isinstance(b, ast.UnaryOp) and isinstance(b.op, ast.USub) and isinstance(b.operand, ast.Constant)) for b in (sl.lower, sl.upper, sl.step)):
            def val(b):
                if b is None:
                    return None
                return b.value if isinstance(b, ast.Constant) else -b.operand.value
            return base[slice(val(sl.lower), val(sl.upper), val(sl.step))]
    return None


def _simple_elt(e):
    if isinstance(e, (ast.Constant, ast.Name)):
        return True
    if isinstance(e, ast.Attribute):
        return _simple_elt(e.value)
    if isinstance(e, ast.UnaryOp) and isinstance(e.operand, ast.Constant):
        return True
    if isinstance(e, (ast.Tuple, ast.List)):
        return all(_simple_elt(x) for x in e.elts)
    return False


def _thread_iteration(stmts, rest, budget):
    """the statements of one loop iteration, rewritten so that falling off the end or `continue` runs `rest` (the following
    iterations) and `break` runs nothing more of the loop; every such point is moved into tail position first.  None when a
    jump sits somewhere this does not model (inside with / a nested loop's else / a try body / a finally)"""
    def has_jump(node):
        stack = [node]
        while stack:
            x = stack.pop()
            if isinstance(x, (ast.Break, ast.Continue)):
                return True
            if isinstance(x, (ast.For, ast.While, ast.FunctionDef, ast.Lambda, ast.ClassDef)) and x is not node:
                continue
            stack.extend(ast.iter_child_nodes(x))
        return False
    budget[0] -= len(stmts) + len(rest)
    if budget[0] < 0:
        return None
    for i, st in enumerate(stmts):
        if isinstance(st, ast.Continue):
            return list(stmts[:i]) + copy.deepcopy(rest)
        if isinstance(st, ast.Break):
            return list(stmts[:i]) or [ast.copy_location(ast.Pass(), st)]
        if isinstance(st, (ast.Return, ast.Raise)):
            return list(stmts[:i + 1])
        if not has_jump(st) and not (isinstance(st, (ast.If, ast.Try)) and _contains_return([st])):
            continue
        after = list(stmts[i + 1:])
        if isinstance(st, ast.If):
            b = _thread_iteration(list(st.body) + copy.deepcopy(after), rest, budget)
            e = _thread_iteration(list(st.orelse) + after, rest, budget)
            if b is None or e is None:
                return None
            new = ast.copy_location(ast.If(test=st.test, body=b or [ast.copy_location(ast.Pass(), st)], orelse=e), st)
            return list(stmts[:i]) + [new]
        if isinstance(st, ast.Try) and not st.finalbody and not any(has_jump(x) or _contains_return([x]) for x in st.body):
            hs = []
            for h in st.handlers:
                hb = _thread_iteration(list(h.body) + copy.deepcopy(after), rest, budget)
                if hb is None:
                    return None
                hs.append(ast.copy_location(ast.ExceptHandler(type=h.type, name=h.name, body=hb or [ast.copy_location(ast.Pass(), h)]), h))
            oe = _thread_iteration(list(st.orelse) + after, rest, budget)
            if oe is None:
                return None
            new = ast.copy_location(ast.Try(body=st.body, handlers=hs, orelse=oe, finalbody=[]), st)
            return list(stmts[:i]) + [new]
        return None
    return list(stmts) + copy.deepcopy(rest)


def _const_table(e):
    """a literal tuple whose elements are constants or tuples of constants (an immutable table)"""
    if isinstance(e, ast.Constant):
        return True
    if isinstance(e, ast.UnaryOp) and isinstance(e.operand, ast.Constant):
        return True
    if isinstance(e, ast.Tuple) and e.elts:
        return all(_const_table(x) for x in e.elts)
    return False


def _pure_test_expr(e):
    """a comparison / boolean combination over plain names and constants"""
    if isinstance(e, (ast.Name, ast.Constant)):
        return True
    if isinstance(e, ast.Compare):
        return _pure_test_expr(e.left) and all(_pure_test_expr(c) for c in e.comparators)
    if isinstance(e, ast.BoolOp):
        return all(_pure_test_expr(v) for v in e.values)
    if isinstance(e, ast.UnaryOp) and isinstance(e.op, ast.Not):
        return _pure_test_expr(e.operand)
    return False


def inline_bool_temps(tree):
    """`flag = a == "YES"` bound exactly once in a function to a comparison over plain local names that are not stored again
    after it (nor anywhere in a loop that contains it): the uses of `flag` that follow become the comparison itself, so that
    tests written through a named flag read like the inline tests the rules look for"""
    n = [0]
    for f in ast.walk(tree):
        if not isinstance(f, (ast.FunctionDef, ast.AsyncFunctionDef)):
            continue
        order = {}
        for k, x in enumerate(_preorder(f)):
            order[id(x)] = k
        stores = {}
        bad = set()
        nested = set()
        for x in _preorder(f):
            if isinstance(x, ast.Name) and isinstance(x.ctx, (ast.Store, ast.Del)):
                stores.setdefault(x.id, []).append(x)
            elif isinstance(x, (ast.Global, ast.Nonlocal)):
                bad.update(x.names)
            elif x is not f and isinstance(x, (ast.FunctionDef, ast.AsyncFunctionDef, ast.Lambda)):
                for y in ast.walk(x):
                    if isinstance(y, ast.Name):
                        nested.add(y.id)
        params = {a.arg for a in ast.walk(f.args) if isinstance(a, ast.arg)}
        # enclosing loops of every statement
        loops_of = {}

        def mark(stmts, loops):
            for st in stmts:
                loops_of[id(st)] = loops
                inner = loops + [st] if isinstance(st, (ast.For, ast.While)) else loops
                if isinstance(st, (ast.FunctionDef, ast.AsyncFunctionDef, ast.ClassDef)):
                    continue
                for fld in ("body", "orelse", "finalbody"):
                    sub = getattr(st, fld, None)
                    if isinstance(sub, list) and sub and isinstance(sub[0], ast.stmt):
                        mark(sub, inner if fld == "body" else loops)
                for h in getattr(st, "handlers", []) or []:
                    mark(h.body, loops)
        mark(f.body, [])
        for st in list(_preorder(f)):
            if not (isinstance(st, ast.Assign) and len(st.targets) == 1 and isinstance(st.targets[0], ast.Name)):
                continue
            name = st.targets[0].id
            if id(st) not in loops_of or len(stores.get(name, ())) != 1 or name in bad or name in nested or name in params:
                continue
            v = st.value
            if not isinstance(v, (ast.Compare, ast.BoolOp, ast.UnaryOp)) or not _pure_test_expr(v):
                continue
            ops = {x.id for x in ast.walk(v) if isinstance(x, ast.Name)}
            if name in ops or ops & bad or ops & nested:
                continue
            here = order[id(st)]
            loops = loops_of[id(st)]
            ok = True
            for o in ops:
                for w in stores.get(o, ()):
                    if order[id(w)] > here:
                        ok = False
                    for lp in loops:
                        if order[id(lp)] <= order[id(w)] and any(w is y for y in ast.walk(lp)):
                            ok = False
            if not ok:
                continue
            uses = [x for x in _preorder(f) if isinstance(x, ast.Name) and x.id == name and isinstance(x.ctx, ast.Load)]
            if not uses or any(order[id(u)] < here for u in uses):
                continue

            class R(ast.NodeTransformer):
                def visit_Name(self, node):
                    if node.id == name and isinstance(node.ctx, ast.Load):
                        return ast.copy_location(copy.deepcopy(v), node)
                    return node
            for top in f.body:
                R().visit(top)
            st.value = ast.copy_location(ast.Constant(value=None), st.value)
            st.targets[0].id = "__dead_" + name
            n[0] += 1
    return n[0]


def _preorder(node):
    stack = [node]
    while stack:
        x = stack.pop()
        yield x
        stack.extend(reversed(list(ast.iter_child_nodes(x))))


def propagate_local_tables(tree):
    """`table = (("V", "VERS"), ("W", "NULL"))` bound exactly once in a function to an immutable literal table and iterated by a
    `for` statement later in the same or a nested block: the literal is put into the `for` header (so the loop can be unrolled)"""
    n = [0]
    for f in ast.walk(tree):
        if not isinstance(f, (ast.FunctionDef, ast.AsyncFunctionDef)):
            continue
        stores = {}
        bad = set()
        for x in ast.walk(f):
            if isinstance(x, ast.Name) and isinstance(x.ctx, (ast.Store, ast.Del)):
                stores[x.id] = stores.get(x.id, 0) + 1
            elif isinstance(x, (ast.Global, ast.Nonlocal)):
                bad.update(x.names)
            elif isinstance(x, ast.arg):
                bad.add(x.arg)
        cands = {}
        for x in ast.walk(f):
            if isinstance(x, ast.Assign) and len(x.targets) == 1 and isinstance(x.targets[0], ast.Name) and isinstance(x.value, ast.Tuple) \
                    and _const_table(x.value) and stores.get(x.targets[0].id) == 1 and x.targets[0].id not in bad:
                cands[x.targets[0].id] = x
        if not cands:
            continue

        def block(stmts, env):
            env = dict(env)
            for st in stmts:
                if isinstance(st, (ast.FunctionDef, ast.AsyncFunctionDef, ast.ClassDef)):
                    continue
                if isinstance(st, ast.For) and isinstance(st.iter, ast.Name) and st.iter.id in env:
                    st.iter = ast.copy_location(copy.deepcopy(env[st.iter.id]), st.iter)
                    n[0] += 1
                for fld in ("body", "orelse", "finalbody"):
                    sub = getattr(st, fld, None)
                    if isinstance(sub, list) and sub and isinstance(sub[0], ast.stmt):
                        block(sub, env)
                for h in getattr(st, "handlers", []) or []:
                    block(h.body, env)
                if isinstance(st, ast.Assign) and len(st.targets) == 1 and isinstance(st.targets[0], ast.Name) \
                        and cands.get(st.targets[0].id) is st:
                    env[st.targets[0].id] = st.value
        block(f.body, {})
    return n[0]


def unroll_constant_loops(tree, limit=8):
    """`for x in ("a", "b", "c"): BODY`, `for k, v in (("a", x), ("b", y)): BODY` and `for k, v in zip((..), (..)): BODY` over
    short literal sequences of simple elements, without break/continue/else: replaced by the unrolled bodies with the loop
    variables substituted (table-driven code becomes the straight-line code rules are written against)"""
    n = [0]

    def rows_of(it):
        seq = _literal_seq(it)
        if seq is not None:
            return seq
        if isinstance(it, ast.Call) and isinstance(it.func, ast.Name) and it.func.id == "zip" and not it.keywords and it.args:
            cols = [_literal_seq(a) for a in it.args]
            if any(c is None for c in cols):
                return None
            m = min(len(c) for c in cols)
            return [ast.Tuple(elts=[c[i] for c in cols], ctx=ast.Load()) for i in range(m)]
        return None

    def bind(target, value, env):
        if isinstance(target, ast.Name):
            env[target.id] = value
            return True
        if isinstance(target, (ast.Tuple, ast.List)) and isinstance(value, (ast.Tuple, ast.List)) and len(target.elts) == len(value.elts):
            return all(bind(t, v, env) for t, v in zip(target.elts, value.elts))
        return False

    def fn(stmts):
        out = []
        for st in stmts:
            if isinstance(st, ast.For):
                rows = rows_of(st.iter)
                names = {x.id for x in ast.walk(st.target) if isinstance(x, ast.Name)}
                body_nodes = [x for b in st.body for x in ast.walk(b)]
                jumps = any(isinstance(x, (ast.Break, ast.Continue, ast.Return)) for x in body_nodes) or bool(st.orelse)
                if rows is not None and 0 < len(rows) <= limit and all(_simple_elt(r) for r in rows) \
                        and not any(isinstance(x, (ast.FunctionDef, ast.Lambda)) for x in body_nodes) \
                        and not any(isinstance(x, ast.Name) and x.id in names and isinstance(x.ctx, ast.Store) for x in body_nodes):
                    ok = True
                    unrolled = []
                    bodies = []
                    for r in rows:
                        env = {}
                        if not bind(st.target, r, env):
                            ok = False
                            break

                        class R(ast.NodeTransformer):
                            def visit_Name(self, node):
                                if node.id in env and isinstance(node.ctx, ast.Load):
                                    return ast.copy_location(copy.deepcopy(env[node.id]), node)
                                return node
                        bodies.append([R().visit(copy.deepcopy(b)) for b in st.body])
                    if ok and not jumps:
                        for b_ in bodies:
                            unrolled.extend(b_)
                    elif ok:
                        # break / continue / return inside the body: the following iterations are threaded into the tail positions
                        rest = copy.deepcopy(st.orelse)      # the else-clause runs when the last iteration ends without `break`
                        budget = [600]
                        for b_ in reversed(bodies):
                            rest = _thread_iteration(b_, rest, budget)
                            if rest is None:
                                ok = False
                                break
                        if ok:
                            # a `break`/`return` path must not run what follows inside the same block twice: the threaded form is one
                            # nested statement list, what follows the loop in the source follows it here as well - but only paths
                            # that *leave* the loop normally may reach it; `return` paths do, by returning.  Paths that ended by
                            # `break` fall out of the nest to the same place.  So the list can be spliced in as it is.
                            unrolled = rest
                    if ok:
                        # names of the loop variables stay bound to the last row after the loop, as in the original
                        last = {}
                        bind(st.target, rows[-1], last)
                        n[0] += 1
                        out.extend(unrolled)
                        continue
            out.append(st)
        return out
    _map_blocks(tree, fn)
    if n[0]:
        ast.fix_missing_locations(tree)
    return n[0]


def split_live_ranges(tree):
    """a local that is re-bound several times at the top level of one block (`item = a; use(item); item = b; use(item)` - what an
    unrolled loop leaves behind) and lives nowhere else gets one name per binding, so that each binding is a plain alias"""
    n = 0
    for fn in ast.walk(tree):
        if not isinstance(fn, (ast.FunctionDef, ast.AsyncFunctionDef)):
            continue
        params = {a.arg for a in fn.args.args + fn.args.kwonlyargs + getattr(fn.args, "posonlyargs", [])}
        for holder in ast.walk(fn):
            for fld in ("body", "orelse", "finalbody"):
                blk = getattr(holder, fld, None)
                if not (isinstance(blk, list) and blk and isinstance(blk[0], ast.stmt)):
                    continue
                defs = {}
                for i, st in enumerate(blk):
                    if isinstance(st, ast.Assign) and len(st.targets) == 1 and isinstance(st.targets[0], ast.Name):
                        defs.setdefault(st.targets[0].id, []).append(i)
                for name, idxs in defs.items():
                    if len(idxs) < 2 or name in params:
                        continue
                    inside = {id(x) for st in blk[idxs[0]:] for x in ast.walk(st) if isinstance(x, ast.Name) and x.id == name}
                    every = [x for x in ast.walk(fn) if isinstance(x, ast.Name) and x.id == name]
                    if any(id(x) not in inside for x in every):
                        continue
                    tops = {id(blk[i].targets[0]) for i in idxs}
                    if any(isinstance(x.ctx, (ast.Store, ast.Del)) and id(x) not in tops for x in every):
                        continue
                    if any(isinstance(x, (ast.For, ast.While)) for x in ast.walk(holder) if x is not holder and any(
                            isinstance(y, ast.Name) and y.id == name for y in ast.walk(x))) and isinstance(holder, (ast.For, ast.While)):
                        continue
                    if isinstance(holder, (ast.For, ast.While)):
                        continue      # loop-carried values would need care
                    for k, i in enumerate(idxs[1:], start=2):
                        new = "%s__r%d" % (name, k)
                        end = idxs[k - 1 + 1] if k - 1 + 1 < len(idxs) else len(blk)
                        # the target of this binding and every use up to (and inside the value of) the next binding
                        blk[i].targets[0].id = new
                        for st in blk[i + 1:end]:
                            for x in ast.walk(st):
                                if isinstance(x, ast.Name) and x.id == name:
                                    x.id = new
                        if end < len(blk):
                            for x in ast.walk(blk[end].value):
                                if isinstance(x, ast.Name) and x.id == name:
                                    x.id = new
                        n += 1
    return n


def lower_getsetattr(tree):
    """`setattr(o, "name", v)` -> `o.name = v` (statement), `getattr(o, "name")` -> `o.name` for constant identifier names"""
    n = [0]

    class G(ast.NodeTransformer):
        def visit_Call(self, node):
            self.generic_visit(node)
            if isinstance(node.func, ast.Name) and node.func.id == "getattr" and len(node.args) == 2 and not node.keywords \
                    and isinstance(node.args[1], ast.Constant) and isinstance(node.args[1].value, str) and node.args[1].value.isidentifier():
                n[0] += 1
                return ast.copy_location(ast.Attribute(value=node.args[0], attr=node.args[1].value, ctx=ast.Load()), node)
            return node
    G().visit(tree)

    def fn(stmts):
        out = []
        for st in stmts:
            if isinstance(st, ast.Expr) and isinstance(st.value, ast.Call) and isinstance(st.value.func, ast.Name) and st.value.func.id == "setattr" \
                    and len(st.value.args) == 3 and not st.value.keywords and isinstance(st.value.args[1], ast.Constant) \
                    and isinstance(st.value.args[1].value, str) and st.value.args[1].value.isidentifier():
                a = st.value.args
                new = ast.Assign(targets=[ast.Attribute(value=a[0], attr=a[1].value, ctx=ast.Store())], value=a[2])
                out.append(ast.copy_location(new, st))
                n[0] += 1
                continue
            out.append(st)
        return out
    _map_blocks(tree, fn)
    if n[0]:
        ast.fix_missing_locations(tree)
    return n[0]


def lower_walrus_while(tree):
    """`while (x := E): BODY` -> `x = E` ; `while x: BODY ; x = E` when BODY has no `continue` of its own (the classic
    priming-read form)"""
    n = [0]

    def own_continue(body):
        stack = list(body)
        while stack:
            s_ = stack.pop()
            if isinstance(s_, ast.Continue):
                return True
            if isinstance(s_, (ast.For, ast.While, ast.FunctionDef, ast.AsyncFunctionDef, ast.ClassDef)):
                continue
            for fld in ("body", "orelse", "finalbody"):
                stack.extend(getattr(s_, fld, []) or [])
            for h in getattr(s_, "handlers", []) or []:
                stack.extend(h.body)
        return False

    def fn(stmts):
        out = []
        for st in stmts:
            if isinstance(st, ast.While) and isinstance(st.test, ast.NamedExpr) and isinstance(st.test.target, ast.Name) \
                    and not st.orelse and not own_continue(st.body):
                w = st.test
                first = ast.copy_location(ast.Assign(targets=[ast.Name(id=w.target.id, ctx=ast.Store())], value=w.value), st)
                again = ast.copy_location(ast.Assign(targets=[ast.Name(id=w.target.id, ctx=ast.Store())], value=copy.deepcopy(w.value)), st.body[-1])
                st.test = ast.copy_location(ast.Name(id=w.target.id, ctx=ast.Load()), w)
                st.body = st.body + [again]
                out.extend([first, st])
                n[0] += 1
                continue
            out.append(st)
        return out
    _map_blocks(tree, fn)
    if n[0]:
        ast.fix_missing_locations(tree)
    return n[0]


def _positions(fn):
    """textual order of the nodes of a function *as it stands after expansion* (line numbers of expanded helper bodies still
    point into the helper): {id(node): index}"""
    pos = {}
    k = [0]

    def rec(node):
        pos[id(node)] = k[0]
        k[0] += 1
        for ch in ast.iter_child_nodes(node):
            rec(ch)
    rec(fn)
    return pos


def propagate_sentinels(tree):
    """`if T: v = E else: v = None` (v assigned nowhere else; T, E plain names not assigned later) encodes the flag T in the value:
    a later test `v is not None` becomes `T and E is not None`, and v inside the branch it guards becomes E (exact rewriting)"""
    n = 0
    for fn in ast.walk(tree):
        if not isinstance(fn, (ast.FunctionDef, ast.AsyncFunctionDef)):
            continue
        stores = {}
        pos = _positions(fn)
        for x in ast.walk(fn):
            if isinstance(x, ast.Name) and isinstance(x.ctx, (ast.Store, ast.Del)):
                stores.setdefault(x.id, []).append(x)
        for iff in [x for x in ast.walk(fn) if isinstance(x, ast.If)]:
            if len(iff.body) != 1 or len(iff.orelse) != 1:
                continue
            a, b = iff.body[0], iff.orelse[0]
            if not all(isinstance(s_, ast.Assign) and len(s_.targets) == 1 and isinstance(s_.targets[0], ast.Name) for s_ in (a, b)):
                continue
            if a.targets[0].id != b.targets[0].id:
                continue
            v = a.targets[0].id
            if len(stores.get(v, [])) != 2:
                continue
            def is_none(e):
                return isinstance(e, ast.Constant) and e.value is None
            if is_none(b.value) and isinstance(a.value, ast.Name):
                E, cond = a.value, iff.test
            elif is_none(a.value) and isinstance(b.value, ast.Name):
                E, cond = b.value, ast.UnaryOp(op=ast.Not(), operand=iff.test)
            else:
                continue
            tnames = {x.id for x in ast.walk(iff.test) if isinstance(x, ast.Name)}
            if any(isinstance(x, ast.Call) for x in ast.walk(iff.test)) or v in tnames or E.id == v:
                continue
            if any(pos[id(st)] > pos[id(iff)] for nm in tnames | {E.id} for st in stores.get(nm, [])):
                continue
            if any(isinstance(x, (ast.Global, ast.Nonlocal)) for x in ast.walk(fn)):
                continue

            def is_test(e):
                return isinstance(e, ast.Compare) and len(e.ops) == 1 and isinstance(e.ops[0], ast.IsNot) and isinstance(e.left, ast.Name) \
                    and e.left.id == v and is_none(e.comparators[0])

            def repl():
                return ast.BoolOp(op=ast.And(), values=[copy.deepcopy(cond), ast.Compare(left=ast.Name(id=E.id, ctx=ast.Load()), ops=[ast.IsNot()],
                                                                                          comparators=[ast.Constant(value=None)])])
            for g in [x for x in ast.walk(fn) if isinstance(x, ast.If) and x is not iff and pos[id(x)] > pos[id(iff)]]:
                hit = False
                if is_test(g.test):
                    g.test = ast.copy_location(repl(), g.test)
                    hit = True
                elif isinstance(g.test, ast.BoolOp) and isinstance(g.test.op, ast.And) and any(is_test(c) for c in g.test.values):
                    vals = []
                    for c in g.test.values:
                        vals.extend(repl().values if is_test(c) else [c])
                    g.test.values = vals
                    hit = True
                if hit:
                    class R(ast.NodeTransformer):
                        def visit_Name(self, node):
                            if node.id == v and isinstance(node.ctx, ast.Load):
                                return ast.copy_location(ast.Name(id=E.id, ctx=ast.Load()), node)
                            return node
                    g.body = [R().visit(s_) for s_ in g.body]
                    n += 1
    if n:
        ast.fix_missing_locations(tree)
    return n


def propagate_selectors(tree):
    """`f = None` / `if T1: f = V1 elif T2: f = V2` (the only stores of f; V simple: names, attributes, constants) followed later
    by `if f is not None: BODY` (or `if f:` for non-constant V) -> `if T1: BODY[f := V1] elif T2: BODY[f := V2]`: a decision taken once
    and remembered in a variable is replayed where it is used.  `str.upper(x)` -> `x.upper()`."""
    n = 0
    for fn in ast.walk(tree):
        if not isinstance(fn, (ast.FunctionDef, ast.AsyncFunctionDef)):
            continue
        for holder in ast.walk(fn):
            for fld in ("body", "orelse", "finalbody"):
                blk = getattr(holder, fld, None)
                if not (isinstance(blk, list) and blk and isinstance(blk[0], ast.stmt)):
                    continue
                for i in range(len(blk)):
                    chain = blk[i]
                    if not isinstance(chain, ast.If):
                        continue
                    a = blk[i - 1] if i > 0 else None
                    lead = (isinstance(a, ast.Assign) and len(a.targets) == 1 and isinstance(a.targets[0], ast.Name)
                            and isinstance(a.value, ast.Constant) and a.value.value is None)
                    first = chain.body[0] if len(chain.body) == 1 else None
                    if not (isinstance(first, ast.Assign) and len(first.targets) == 1 and isinstance(first.targets[0], ast.Name)):
                        continue
                    f = first.targets[0].id
                    if lead and a.targets[0].id != f:
                        lead = False
                    arms = []
                    cur = chain
                    ok = True
                    trailing_none = False
                    while True:
                        if not (len(cur.body) == 1 and isinstance(cur.body[0], ast.Assign) and len(cur.body[0].targets) == 1
                                and isinstance(cur.body[0].targets[0], ast.Name) and cur.body[0].targets[0].id == f):
                            ok = False
                            break
                        v = cur.body[0].value
                        if not (isinstance(v, (ast.Name, ast.Constant)) or (isinstance(v, ast.Attribute) and isinstance(v.value, ast.Name))) \
                                or (isinstance(v, ast.Constant) and not v.value):
                            ok = False
                            break
                        if any(isinstance(x, ast.Call) for x in ast.walk(cur.test)) or any(isinstance(x, ast.Name) and x.id == f for x in ast.walk(cur.test)):
                            ok = False
                            break
                        arms.append((cur.test, v))
                        if len(cur.orelse) == 1 and isinstance(cur.orelse[0], ast.If):
                            cur = cur.orelse[0]
                            continue
                        if len(cur.orelse) == 1 and isinstance(cur.orelse[0], ast.Assign) and len(cur.orelse[0].targets) == 1 \
                                and isinstance(cur.orelse[0].targets[0], ast.Name) and cur.orelse[0].targets[0].id == f \
                                and isinstance(cur.orelse[0].value, ast.Constant) and cur.orelse[0].value.value is None:
                            trailing_none = True      # `else: f = None` closes the chain instead of a leading `f = None`
                        elif cur.orelse:
                            ok = False
                        break
                    if not ok or not arms or not (lead or trailing_none):
                        continue
                    stores = [x for x in ast.walk(fn) if isinstance(x, ast.Name) and x.id == f and isinstance(x.ctx, (ast.Store, ast.Del))]
                    if len(stores) != len(arms) + (1 if lead else 0) + (1 if trailing_none else 0):
                        continue
                    pos = _positions(fn)
                    tnames = {x.id for t, _ in arms for x in ast.walk(t) if isinstance(x, ast.Name)} | {
                        x.id for _, v in arms for x in ast.walk(v) if isinstance(x, ast.Name)}
                    if any(isinstance(x, ast.Name) and x.id in tnames and isinstance(x.ctx, (ast.Store, ast.Del)) and pos[id(x)] > pos[id(chain)]
                           for x in ast.walk(fn)):
                        continue
                    for g in [x for x in ast.walk(fn) if isinstance(x, ast.If) and pos[id(x)] > pos[id(chain)]]:
                        t = g.test
                        is_guard = (isinstance(t, ast.Compare) and len(t.ops) == 1 and isinstance(t.ops[0], ast.IsNot) and isinstance(t.left, ast.Name)
                                    and t.left.id == f and isinstance(t.comparators[0], ast.Constant) and t.comparators[0].value is None) or (
                            isinstance(t, ast.Name) and t.id == f and not any(isinstance(v, ast.Constant) for _, v in arms))
                        if not is_guard or g.orelse:
                            continue
                        new = None
                        for test, v in reversed(arms):
                            class R(ast.NodeTransformer):
                                def visit_Name(self, node):
                                    if node.id == f and isinstance(node.ctx, ast.Load):
                                        return ast.copy_location(copy.deepcopy(v), node)
                                    return node
                            body = [R().visit(copy.deepcopy(s_)) for s_ in g.body]
                            new = ast.copy_location(ast.If(test=copy.deepcopy(test), body=body, orelse=[new] if new is not None else []), g)
                        g.test, g.body, g.orelse = new.test, new.body, new.orelse
                        n += 1
    # str.upper(x) -> x.upper()
    class U(ast.NodeTransformer):
        def visit_Call(self, node):
            self.generic_visit(node)
            f_ = node.func
            if isinstance(f_, ast.Attribute) and isinstance(f_.value, ast.Name) and f_.value.id == "str" and len(node.args) == 1 and not node.keywords \
                    and f_.attr in ("upper", "lower", "strip", "casefold", "title", "lstrip", "rstrip", "capitalize", "swapcase"):
                return ast.copy_location(ast.Call(func=ast.Attribute(value=node.args[0], attr=f_.attr, ctx=ast.Load()), args=[], keywords=[]), node)
            return node
    if n:
        U().visit(tree)
        ast.fix_missing_locations(tree)
    return n


def propagate_dict_copies(tree):
    """`d2 = dict(d1, k=v, ..)` (d2 bound once and only ever read as `d2["<const>"]`; d1, v names that are not re-bound or written
    into afterwards) -> `d2["k"]` becomes v, `d2["other"]` becomes `d1["other"]`"""
    n = 0
    for fn in ast.walk(tree):
        if not isinstance(fn, (ast.FunctionDef, ast.AsyncFunctionDef)):
            continue
        for st in [x for x in ast.walk(fn) if isinstance(x, ast.Assign)]:
            if not (len(st.targets) == 1 and isinstance(st.targets[0], ast.Name) and isinstance(st.value, ast.Call)
                    and isinstance(st.value.func, ast.Name) and st.value.func.id == "dict" and len(st.value.args) == 1
                    and isinstance(st.value.args[0], ast.Name) and all(k.arg and isinstance(k.value, (ast.Name, ast.Constant)) for k in st.value.keywords)):
                continue
            d2, d1 = st.targets[0].id, st.value.args[0].id
            pos = _positions(fn)
            if d1 == d2:
                continue
            names = [x for x in ast.walk(fn) if isinstance(x, ast.Name)]
            if sum(1 for x in names if x.id == d2 and isinstance(x.ctx, ast.Store)) != 1:
                continue
            loads = [x for x in names if x.id == d2 and isinstance(x.ctx, ast.Load)]
            subs = [x for x in ast.walk(fn) if isinstance(x, ast.Subscript) and isinstance(x.value, ast.Name) and x.value.id == d2
                    and isinstance(x.ctx, ast.Load) and isinstance(x.slice, ast.Constant) and isinstance(x.slice.value, str)]
            if not loads or len(loads) != len(subs) or any(pos[id(x)] < pos[id(st)] for x in loads):
                continue
            watch = {d1} | {k.value.id for k in st.value.keywords if isinstance(k.value, ast.Name)}
            dirty = False
            for x in ast.walk(fn):
                if isinstance(x, ast.Name) and x.id in watch and isinstance(x.ctx, (ast.Store, ast.Del)) and pos[id(x)] > pos[id(st)]:
                    dirty = True
                if isinstance(x, ast.Subscript) and isinstance(x.ctx, (ast.Store, ast.Del)) and isinstance(x.value, ast.Name) and x.value.id == d1 \
                        and pos[id(x)] > pos[id(st)]:
                    dirty = True
                if isinstance(x, ast.Call) and isinstance(x.func, ast.Attribute) and isinstance(x.func.value, ast.Name) and x.func.value.id == d1 \
                        and x.func.attr in ("update", "pop", "setdefault", "clear", "popitem"):
                    dirty = True
            if dirty:
                continue
            over = {k.arg: k.value for k in st.value.keywords}

            class R(ast.NodeTransformer):
                def visit_Subscript(self, node):
                    if any(node is x for x in subs):
                        if node.slice.value in over:
                            return ast.copy_location(copy.deepcopy(over[node.slice.value]), node)
                        return ast.copy_location(ast.Subscript(value=ast.Name(id=d1, ctx=ast.Load()), slice=node.slice, ctx=ast.Load()), node)
                    return self.generic_visit(node)
            R().visit(fn)
            st.value = ast.copy_location(ast.Constant(value=None), st.value)
            n += 1
    if n:
        ast.fix_missing_locations(tree)
    return n


def _namedtuple_types(tree):
    """module-level `T = [collections.]namedtuple("T", <field names>, defaults=<constants>)` -> {T: (fields, {field: default})}"""
    types = {}
    for st in tree.body:
        if not (isinstance(st, ast.Assign) and len(st.targets) == 1 and isinstance(st.targets[0], ast.Name) and isinstance(st.value, ast.Call)):
            continue
        c = st.value
        fname = c.func.attr if isinstance(c.func, ast.Attribute) else c.func.id if isinstance(c.func, ast.Name) else None
        if fname != "namedtuple" or len(c.args) < 2 or any(k.arg not in ("defaults",) for k in c.keywords):
            continue
        fa = c.args[1]
        if isinstance(fa, ast.Constant) and isinstance(fa.value, str):
            fields = fa.value.replace(",", " ").split()
        elif isinstance(fa, (ast.List, ast.Tuple)) and all(isinstance(e, ast.Constant) and isinstance(e.value, str) for e in fa.elts):
            fields = [e.value for e in fa.elts]
        else:
            continue
        if not fields or len(set(fields)) != len(fields) or not all(f.isidentifier() and not f.startswith("_") for f in fields):
            continue
        defaults = {}
        dk = next((k.value for k in c.keywords if k.arg == "defaults"), None)
        if dk is not None:
            if not (isinstance(dk, (ast.Tuple, ast.List)) and len(dk.elts) <= len(fields) and all(_const_table(e) for e in dk.elts)):
                continue
            for f_, d_ in zip(fields[len(fields) - len(dk.elts):], dk.elts):
                defaults[f_] = d_
        types[st.targets[0].id] = (fields, defaults)
    return types


def scalarize_local_records(tree):
    """a local variable that only ever holds a record of a module-level namedtuple type - built by `T(..)`, updated by
    `r = r._replace(k=v)`, read as `r.field` - is a bundle of local variables: `r = T(a=x)` becomes `r__a = x; r__b = <default>`,
    `r = r._replace(a=y)` becomes `r__a = y` and `r.a` becomes `r__a`.  Not applied when a right-hand side reads a field that an
    earlier assignment of the same group has just written (the tuple is built before it is bound)."""
    types = _namedtuple_types(tree)
    if not types:
        return 0
    n = 0
    for fn in ast.walk(tree):
        if not isinstance(fn, (ast.FunctionDef, ast.AsyncFunctionDef)):
            continue
        if any(isinstance(x, (ast.Global, ast.Nonlocal)) for x in ast.walk(fn)):
            continue
        params = {a.arg for a in ast.walk(fn.args) if isinstance(a, ast.arg)}
        groups = {}     # name -> list of (assign stmt, [(field, value)])
        tname = {}
        rejected = set()
        for st in ast.walk(fn):
            if not isinstance(st, ast.Assign):
                continue
            for t in st.targets:
                for x in ast.walk(t):
                    if isinstance(x, ast.Name) and isinstance(x.ctx, ast.Store) and (len(st.targets) != 1 or x is not st.targets[0]):
                        rejected.add(x.id)
            if len(st.targets) != 1 or not isinstance(st.targets[0], ast.Name) or not isinstance(st.value, ast.Call):
                continue
            name = st.targets[0].id
            c = st.value
            if isinstance(c.func, ast.Name) and c.func.id in types:
                fields, defaults = types[c.func.id]
                if any(isinstance(a, ast.Starred) for a in c.args) or any(k.arg is None for k in c.keywords) or len(c.args) > len(fields):
                    rejected.add(name)
                    continue
                given = dict(zip(fields, c.args))
                okk = True
                for k in c.keywords:
                    if k.arg not in fields or k.arg in given:
                        okk = False
                    given[k.arg] = k.value
                if not okk or any(f_ not in given and f_ not in defaults for f_ in fields):
                    rejected.add(name)
                    continue
                if tname.setdefault(name, c.func.id) != c.func.id:
                    rejected.add(name)
                    continue
                groups.setdefault(name, []).append((st, [(f_, given.get(f_, defaults.get(f_))) for f_ in fields]))
            elif isinstance(c.func, ast.Attribute) and c.func.attr == "_replace" and isinstance(c.func.value, ast.Name) and c.func.value.id == name \
                    and not c.args and c.keywords and all(k.arg for k in c.keywords):
                groups.setdefault(name, []).append((st, [(k.arg, k.value) for k in c.keywords]))
        for name, defs in groups.items():
            if name in rejected or name in params or name not in tname:
                continue
            fields, _d = types[tname[name]]
            if any(f_ not in fields for _st, pairs in defs for f_, _v in pairs):
                continue
            def_stmts = {id(st) for st, _ in defs}
            names = [x for x in ast.walk(fn) if isinstance(x, ast.Name) and x.id == name]
            stores = [x for x in names if isinstance(x.ctx, (ast.Store, ast.Del))]
            if len(stores) != len(defs):
                continue
            attrs = [x for x in ast.walk(fn) if isinstance(x, ast.Attribute) and isinstance(x.value, ast.Name) and x.value.id == name
                     and isinstance(x.ctx, ast.Load) and (x.attr in fields or x.attr in ("_replace", "_asdict"))]
            repl = [x for x in attrs if x.attr == "_replace"]
            if len(repl) != sum(1 for st, _ in defs if isinstance(st.value.func, ast.Attribute)):
                continue
            # `f(.., **r._asdict())`: the record's fields as keyword arguments
            asd = [x for x in attrs if x.attr == "_asdict"]
            spreads = [k for c_ in ast.walk(fn) if isinstance(c_, ast.Call) for k in c_.keywords if k.arg is None and isinstance(k.value, ast.Call)
                       and not k.value.args and not k.value.keywords and any(k.value.func is a_ for a_ in asd)]
            if len(spreads) != len(asd):
                continue
            if len(names) != len(stores) + len(attrs):
                continue
            if any(isinstance(x, (ast.FunctionDef, ast.AsyncFunctionDef, ast.Lambda)) and x is not fn
                   and any(isinstance(y, ast.Name) and y.id == name for y in ast.walk(x)) for x in ast.walk(fn)):
                continue
            if any(isinstance(x, ast.Name) and x.id.startswith(name + "__") for x in ast.walk(fn)):
                continue
            hazard = False
            for st, pairs in defs:
                written = set()
                for f_, v in pairs:
                    reads = {x.attr for x in ast.walk(v) if isinstance(x, ast.Attribute) and isinstance(x.value, ast.Name) and x.value.id == name}
                    if reads & written:
                        hazard = True
                    written.add(f_)
            if hazard:
                continue

            class R(ast.NodeTransformer):
                def visit_Attribute(self, node):
                    self.generic_visit(node)
                    if isinstance(node.value, ast.Name) and node.value.id == name and node.attr in fields and isinstance(node.ctx, ast.Load):
                        return ast.copy_location(ast.Name(id="%s__%s" % (name, node.attr), ctx=ast.Load()), node)
                    return node
            expansions = {}
            for st, pairs in defs:
                out = []
                for f_, v in pairs:
                    a = ast.Assign(targets=[ast.Name(id="%s__%s" % (name, f_), ctx=ast.Store())], value=R().visit(copy.deepcopy(v)))
                    ast.copy_location(a, st)
                    ast.fix_missing_locations(a)
                    out.append(a)
                expansions[id(st)] = out

            def blockfn(stmts):
                out = []
                for st in stmts:
                    if id(st) in expansions:
                        out.extend(expansions[id(st)])
                    else:
                        out.append(st)
                return out
            _map_blocks(fn, blockfn)
            for c_ in ast.walk(fn):
                if isinstance(c_, ast.Call) and any(k in spreads for k in c_.keywords):
                    kws = []
                    for k in c_.keywords:
                        if any(k is sp_ for sp_ in spreads):
                            kws.extend(ast.keyword(arg=f_, value=ast.Name(id="%s__%s" % (name, f_), ctx=ast.Load())) for f_ in fields)
                        else:
                            kws.append(k)
                    c_.keywords = kws
            for top in fn.body:
                R().visit(top)
            ast.fix_missing_locations(fn)
            n += 1
    return n


def drop_self_assignments(tree):
    """`x = x` (left behind when a record field or dict entry keeps its value on one branch) is removed"""
    n = [0]

    def is_self(st):
        return isinstance(st, ast.Assign) and len(st.targets) == 1 and isinstance(st.targets[0], ast.Name) \
            and isinstance(st.value, ast.Name) and st.value.id == st.targets[0].id

    def fn(stmts):
        out = [st for st in stmts if not is_self(st)]
        n[0] += len(stmts) - len(out)
        return out

    def rec(node):
        for fld in ("body", "orelse", "finalbody"):
            blk = getattr(node, fld, None)
            if isinstance(blk, list) and blk and isinstance(blk[0], ast.stmt):
                for st in blk:
                    rec(st)
                new_blk = fn(blk)
                if not new_blk and fld == "body":
                    new_blk = [ast.copy_location(ast.Pass(), blk[0])]
                setattr(node, fld, new_blk)
        for h in getattr(node, "handlers", []) or []:
            for st in h.body:
                rec(st)
            h.body = fn(h.body) or [ast.copy_location(ast.Pass(), h.body[0])]
    rec(tree)
    return n[0]


def scalarize_local_dicts(tree):
    """a local dict with constant string keys that is only ever read and written as `d["<key>"]` (never passed on, iterated or
    measured) is a bundle of local variables: `d = {"a": x, ..}` / `dict(zip(("a",..), (x,..)))` / `dict(a=x, ..)` becomes
    `d__a = x; ..` and `d["a"]` becomes `d__a`"""
    n = 0
    for fn in ast.walk(tree):
        if not isinstance(fn, (ast.FunctionDef, ast.AsyncFunctionDef)):
            continue
        cands = {}
        for st in ast.walk(fn):
            if isinstance(st, ast.Assign) and len(st.targets) == 1 and isinstance(st.targets[0], ast.Name):
                v = st.value
                pairs = None
                if isinstance(v, ast.Dict) and v.keys and all(isinstance(k, ast.Constant) and isinstance(k.value, str) for k in v.keys):
                    pairs = [(k.value, x) for k, x in zip(v.keys, v.values)]
                elif isinstance(v, ast.Call) and isinstance(v.func, ast.Name) and v.func.id == "dict" and not v.args and v.keywords \
                        and all(k.arg for k in v.keywords):
                    pairs = [(k.arg, k.value) for k in v.keywords]
                elif isinstance(v, ast.Call) and isinstance(v.func, ast.Name) and v.func.id == "dict" and len(v.args) == 1 and not v.keywords \
                        and isinstance(v.args[0], ast.Call) and isinstance(v.args[0].func, ast.Name) and v.args[0].func.id == "zip" \
                        and len(v.args[0].args) == 2 and all(isinstance(a, (ast.Tuple, ast.List)) for a in v.args[0].args) \
                        and len(v.args[0].args[0].elts) == len(v.args[0].args[1].elts) \
                        and all(isinstance(k, ast.Constant) and isinstance(k.value, str) for k in v.args[0].args[0].elts):
                    pairs = [(k.value, x) for k, x in zip(v.args[0].args[0].elts, v.args[0].args[1].elts)]
                if pairs and len({k for k, _ in pairs}) == len(pairs) and all(k.isidentifier() for k, _ in pairs):
                    cands.setdefault(st.targets[0].id, []).append((st, pairs))
        for name, defs in cands.items():
            if len(defs) != 1:
                continue
            st, pairs = defs[0]
            keys = {k for k, _ in pairs}
            names = [x for x in ast.walk(fn) if isinstance(x, ast.Name) and x.id == name]
            subs = [x for x in ast.walk(fn) if isinstance(x, ast.Subscript) and isinstance(x.value, ast.Name) and x.value.id == name
                    and isinstance(x.slice, ast.Constant) and x.slice.value in keys and not isinstance(x.ctx, ast.Del)]
            if len(names) != len(subs) + 1:
                continue
            if any(isinstance(x, (ast.Global, ast.Nonlocal)) for x in ast.walk(fn)):
                continue
            if any(isinstance(x, (ast.FunctionDef, ast.Lambda)) and x is not fn and any(isinstance(y, ast.Name) and y.id == name for y in ast.walk(x))
                   for x in ast.walk(fn)):
                continue

            class R(ast.NodeTransformer):
                def visit_Subscript(self, node):
                    if any(node is x for x in subs):
                        return ast.copy_location(ast.Name(id="%s__%s" % (name, node.slice.value), ctx=node.ctx), node)
                    return self.generic_visit(node)
            R().visit(fn)
            new = [ast.copy_location(ast.Assign(targets=[ast.Name(id="%s__%s" % (name, k), ctx=ast.Store())], value=v), st) for k, v in pairs]
            # evaluation order of the values is kept; the statement list that holds `st` gets the new assignments
            for holder in ast.walk(fn):
                for fld in ("body", "orelse", "finalbody"):
                    blk = getattr(holder, fld, None)
                    if isinstance(blk, list) and any(x is st for x in blk):
                        i = [k for k, x in enumerate(blk) if x is st][0]
                        blk[i:i + 1] = new
            n += 1
    if n:
        ast.fix_missing_locations(tree)
    return n


def lower_zip_count(tree):
    """`for n, x in zip(itertools.count(S), X)` -> `for n, x in enumerate(X, S)`; `zip(X, itertools.count(S))` with targets swapped;
    `c = itertools.count(S)` directly in front of the loop (c used nowhere else) counts as the call"""
    n = 0
    for fn in [x for x in ast.walk(tree) if isinstance(x, (ast.FunctionDef, ast.AsyncFunctionDef))]:
        for holder in ast.walk(fn):
            for fld in ("body", "orelse", "finalbody"):
                blk = getattr(holder, fld, None)
                if not (isinstance(blk, list) and blk and isinstance(blk[0], ast.stmt)):
                    continue
                for i in range(len(blk) - 1):
                    a, lp = blk[i], blk[i + 1]
                    if isinstance(a, ast.Assign) and len(a.targets) == 1 and isinstance(a.targets[0], ast.Name) and isinstance(a.value, ast.Call) \
                            and ast.unparse(a.value.func) in ("itertools.count", "count") and isinstance(lp, ast.For) \
                            and isinstance(lp.iter, ast.Call) and isinstance(lp.iter.func, ast.Name) and lp.iter.func.id == "zip":
                        c = a.targets[0].id
                        uses = [x for x in ast.walk(fn) if isinstance(x, ast.Name) and x.id == c]
                        args = [x for x in lp.iter.args if isinstance(x, ast.Name) and x.id == c]
                        if len(uses) == 2 and len(args) == 1:
                            lp.iter.args[lp.iter.args.index(args[0])] = a.value
                            blk[i] = ast.copy_location(ast.Pass(), a)
    for lp in ast.walk(tree):
        if not (isinstance(lp, ast.For) and isinstance(lp.iter, ast.Call) and isinstance(lp.iter.func, ast.Name) and lp.iter.func.id == "zip"
                and len(lp.iter.args) == 2 and not lp.iter.keywords and isinstance(lp.target, ast.Tuple) and len(lp.target.elts) == 2):
            continue

        def is_count(e):
            return isinstance(e, ast.Call) and ast.unparse(e.func) in ("itertools.count", "count") and len(e.args) <= 1 and not e.keywords
        a, b = lp.iter.args
        if is_count(a) and not is_count(b):
            start, seq, tgt = (a.args[0] if a.args else None), b, lp.target.elts
        elif is_count(b) and not is_count(a):
            start, seq, tgt = (b.args[0] if b.args else None), a, [lp.target.elts[1], lp.target.elts[0]]
        else:
            continue
        lp.iter = ast.copy_location(ast.Call(func=ast.Name(id="enumerate", ctx=ast.Load()), args=[seq] + ([start] if start is not None else []),
                                             keywords=[]), lp.iter)
        lp.target = ast.copy_location(ast.Tuple(elts=list(tgt), ctx=ast.Store()), lp.target)
        n += 1
    if n:
        ast.fix_missing_locations(tree)
    return n


def lower_dict_dispatch(tree):
    """`v = {"a": X, "b": Y}.get(k)` / `.get(k, D)` (constant keys, simple values) -> `v = D; if k == "a": v = X elif k == "b": v = Y`"""
    n = [0]

    def fn(stmts):
        out = []
        for st in stmts:
            v = st.value if isinstance(st, ast.Assign) and len(st.targets) == 1 and isinstance(st.targets[0], ast.Name) else None
            if isinstance(v, ast.Call) and isinstance(v.func, ast.Attribute) and v.func.attr == "get" and isinstance(v.func.value, ast.Dict) \
                    and 1 <= len(v.args) <= 2 and not v.keywords and isinstance(v.args[0], ast.Name) and v.func.value.keys \
                    and all(isinstance(k, ast.Constant) for k in v.func.value.keys) \
                    and all(isinstance(x, (ast.Name, ast.Constant)) or (isinstance(x, ast.Attribute) and isinstance(x.value, ast.Name)) for x in v.func.value.values) \
                    and (len(v.args) == 1 or isinstance(v.args[1], (ast.Constant, ast.Name))):
                tgt = st.targets[0].id
                dflt = v.args[1] if len(v.args) == 2 else ast.Constant(value=None)
                out.append(ast.copy_location(ast.Assign(targets=[ast.Name(id=tgt, ctx=ast.Store())], value=dflt), st))
                chain = None
                for k, x in reversed(list(zip(v.func.value.keys, v.func.value.values))):
                    test = ast.Compare(left=copy.deepcopy(v.args[0]), ops=[ast.Eq()], comparators=[k])
                    chain = ast.copy_location(ast.If(test=test, body=[ast.Assign(targets=[ast.Name(id=tgt, ctx=ast.Store())], value=x)],
                                                     orelse=[chain] if chain is not None else []), st)
                out.append(chain)
                n[0] += 1
                continue
            out.append(st)
        return out
    _map_blocks(tree, fn)
    if n[0]:
        ast.fix_missing_locations(tree)
    return n[0]


def lower_builtin_idioms(tree):
    """`vars(x)` -> `x.__dict__`; `map(f, S, itertools.repeat(c))` -> `(f(e, c) for e in S)`; `map(f, S)` -> `(f(e) for e in S)`;
    `list(<generator expression>)` -> list comprehension"""
    n = [0]

    class T(ast.NodeTransformer):
        def visit_Call(self, node):
            self.generic_visit(node)
            f = node.func
            if isinstance(f, ast.Name) and f.id == "vars" and len(node.args) == 1 and not node.keywords:
                n[0] += 1
                return ast.copy_location(ast.Attribute(value=node.args[0], attr="__dict__", ctx=ast.Load()), node)
            if isinstance(f, ast.Name) and f.id == "map" and len(node.args) >= 2 and not node.keywords \
                    and isinstance(node.args[0], (ast.Name, ast.Attribute)):
                seqs = node.args[1:]
                reps = [a for a in seqs if isinstance(a, ast.Call) and ast.unparse(a.func) in ("itertools.repeat", "repeat") and len(a.args) == 1]
                real = [a for a in seqs if a not in reps]
                if len(real) == 1 and seqs[0] is real[0]:
                    n[0] += 1
                    ev = "__e%d" % n[0]
                    call = ast.Call(func=node.args[0], args=[ast.Name(id=ev, ctx=ast.Load())] + [r.args[0] for r in reps], keywords=[])
                    return ast.copy_location(ast.GeneratorExp(elt=call, generators=[ast.comprehension(
                        target=ast.Name(id=ev, ctx=ast.Store()), iter=real[0], ifs=[], is_async=0)]), node)
            if isinstance(f, ast.Name) and f.id == "list" and len(node.args) == 1 and not node.keywords and isinstance(node.args[0], ast.GeneratorExp):
                n[0] += 1
                g = node.args[0]
                return ast.copy_location(ast.ListComp(elt=g.elt, generators=g.generators), node)
            return node
    T().visit(tree)
    if n[0]:
        ast.fix_missing_locations(tree)
    return n[0]


def lower_writerows(tree):
    """`w.writerows(rows)` as a statement -> `for __row in rows: w.writerow(__row)` (what csv writers do)"""
    n = [0]

    def fn(stmts):
        out = []
        for st in stmts:
            if isinstance(st, ast.Expr) and isinstance(st.value, ast.Call) and isinstance(st.value.func, ast.Attribute) \
                    and st.value.func.attr == "writerows" and len(st.value.args) == 1 and not st.value.keywords \
                    and isinstance(st.value.func.value, (ast.Name, ast.Attribute)):
                n[0] += 1
                nm = "__row%d" % n[0]
                call = ast.Call(func=ast.Attribute(value=st.value.func.value, attr="writerow", ctx=ast.Load()),
                                args=[ast.Name(id=nm, ctx=ast.Load())], keywords=[])
                out.append(ast.copy_location(ast.For(target=ast.Name(id=nm, ctx=ast.Store()), iter=st.value.args[0],
                                                     body=[ast.Expr(value=call)], orelse=[], type_comment=None), st))
                continue
            out.append(st)
        return out
    _map_blocks(tree, fn)
    if n[0]:
        ast.fix_missing_locations(tree)
    return n[0]


def split_multi_assign(tree):
    """`a, b = X, Y` (displays of equal length, no target read on the right) -> `a = X; b = Y`;
    `a = b = <constant>` -> `a = <constant>; b = <constant>`"""
    n = [0]

    def fn(stmts):
        out = []
        for st in stmts:
            if isinstance(st, ast.Assign) and len(st.targets) == 1 and isinstance(st.targets[0], (ast.Tuple, ast.List)) \
                    and isinstance(st.value, (ast.Tuple, ast.List)) and len(st.targets[0].elts) == len(st.value.elts) \
                    and all(isinstance(t, ast.Name) for t in st.targets[0].elts) \
                    and not any(isinstance(x, ast.Starred) for x in st.value.elts):
                tn = {t.id for t in st.targets[0].elts}
                if not any(isinstance(x, ast.Name) and x.id in tn for v in st.value.elts for x in ast.walk(v)):
                    for t, v in zip(st.targets[0].elts, st.value.elts):
                        out.append(ast.copy_location(ast.Assign(targets=[t], value=v), st))
                    n[0] += 1
                    continue
            if isinstance(st, ast.Assign) and len(st.targets) > 1 and isinstance(st.value, ast.Constant) \
                    and all(isinstance(t, ast.Name) for t in st.targets):
                for t in st.targets:
                    out.append(ast.copy_location(ast.Assign(targets=[t], value=copy.deepcopy(st.value)), st))
                n[0] += 1
                continue
            out.append(st)
        return out
    _map_blocks(tree, fn)
    if n[0]:
        ast.fix_missing_locations(tree)
    return n[0]


def canonical_tests(tree):
    """negations pushed through and/or (de Morgan, same evaluation order and short-circuiting), `not not x` in a test -> x,
    `not (a in b)` -> `a not in b`, `not (a is b)` -> `a is not b`"""
    n = [0]

    def neg(e):
        """expression equivalent to `not e` in a boolean context, pushed inward where exact"""
        if isinstance(e, ast.UnaryOp) and isinstance(e.op, ast.Not):
            return pos(e.operand)
        if isinstance(e, ast.BoolOp):
            n[0] += 1
            return ast.copy_location(ast.BoolOp(op=ast.And() if isinstance(e.op, ast.Or) else ast.Or(), values=[neg(v) for v in e.values]), e)
        if isinstance(e, ast.Compare) and len(e.ops) == 1 and isinstance(e.ops[0], (ast.In, ast.NotIn, ast.Is, ast.IsNot, ast.Eq, ast.NotEq)):
            # ==/!= too: no class of the package defines __eq__/__ne__, and for builtin and numpy scalars `!=` is `not ==`
            n[0] += 1
            flip = {ast.In: ast.NotIn, ast.NotIn: ast.In, ast.Is: ast.IsNot, ast.IsNot: ast.Is, ast.Eq: ast.NotEq, ast.NotEq: ast.Eq}[type(e.ops[0])]
            return ast.copy_location(ast.Compare(left=e.left, ops=[flip()], comparators=e.comparators), e)
        return ast.copy_location(ast.UnaryOp(op=ast.Not(), operand=e), e)

    def pos(e):
        if isinstance(e, ast.UnaryOp) and isinstance(e.op, ast.Not):
            inner = e.operand
            if isinstance(inner, (ast.BoolOp, ast.UnaryOp)) or (
                    isinstance(inner, ast.Compare) and len(inner.ops) == 1 and isinstance(inner.ops[0], (ast.In, ast.NotIn, ast.Is, ast.IsNot, ast.Eq, ast.NotEq))):
                return neg(inner)
            return e
        if isinstance(e, ast.BoolOp):
            e.values = [pos(v) for v in e.values]
            # flatten nested operators of the same kind: (a and b) and c
            flat = []
            for v in e.values:
                if isinstance(v, ast.BoolOp) and type(v.op) is type(e.op):
                    flat.extend(v.values)
                else:
                    flat.append(v)
            e.values = flat
            return e
        return e
    for node in ast.walk(tree):
        if isinstance(node, ast.If) and node.orelse and all(isinstance(s_, ast.Pass) for s_ in node.body):
            # `if t: pass else: B` (what an expanded guard clause `if t: return` leaves behind) -> `if not t: B`
            node.test = ast.copy_location(ast.UnaryOp(op=ast.Not(), operand=node.test), node.test)
            node.body, node.orelse = node.orelse, []
            n[0] += 1
        if isinstance(node, (ast.If, ast.While, ast.IfExp)):
            node.test = pos(node.test)
        elif isinstance(node, ast.comprehension):
            node.ifs = [pos(t) for t in node.ifs]
    if n[0]:
        ast.fix_missing_locations(tree)
    return n[0]


def split_and_ifs(tree):
    """`if a and b: BODY` (no else) -> `if a: if b: BODY` - one canonical form for guards, whether written nested or merged"""
    n = [0]

    def fn(stmts):
        out = []
        for st in stmts:
            if isinstance(st, ast.If) and not st.orelse and isinstance(st.test, ast.BoolOp) and isinstance(st.test.op, ast.And):
                vals = st.test.values
                inner = st.body
                for v in reversed(vals[1:]):
                    node = ast.If(test=v, body=inner, orelse=[])
                    ast.copy_location(node, v)
                    inner = [node]
                st.test = vals[0]
                st.body = inner
                n[0] += 1
            out.append(st)
        return out
    _map_blocks(tree, fn)
    if n[0]:
        ast.fix_missing_locations(tree)
    return n[0]


def extern_helpers(tree, modname, raw_trees):
    """private module-level functions of other lasio modules that this module imports:
    `from ._util import _pad` -> {"_pad": def};  `from . import _util` / `import lasio._util as u` + `u._pad(...)` calls are
    rewritten to plain `_pad__u(...)` names bound to the definition"""
    out = {}
    aliases = {}
    for node in tree.body:
        if isinstance(node, ast.ImportFrom) and node.level >= 1:
            if node.module:          # from .mod import name
                src = raw_trees.get(node.module.split(".")[-1])
                if src is None:
                    continue
                private_mod = node.module.split(".")[-1].startswith("_") and node.module.split(".")[-1] != "__init__"
                for a in node.names:
                    if (a.name.startswith("_") or private_mod) and not a.name.startswith("__"):
                        for d in src.body:
                            if isinstance(d, ast.FunctionDef) and d.name == a.name:
                                out[a.asname or a.name] = d
            else:                    # from . import mod
                for a in node.names:
                    if a.name in raw_trees:
                        aliases[a.asname or a.name] = a.name
    # literal constants of private modules: `from ._units import METRES_PER_FOOT`, `_units.METRES_PER_FOOT`
    def literal_of(modname, name):
        src = raw_trees.get(modname)
        if src is None:
            return None
        defs = [n_ for n_ in src.body if isinstance(n_, ast.Assign) and len(n_.targets) == 1 and isinstance(n_.targets[0], ast.Name)
                and n_.targets[0].id == name]
        if len(defs) == 1 and _is_literal(defs[0].value):
            return defs[0].value
        return None
    imported_consts = {}
    for node in tree.body:
        if isinstance(node, ast.ImportFrom) and node.level >= 1 and node.module and node.module.split(".")[-1].startswith("_"):
            for a in node.names:
                lit = literal_of(node.module.split(".")[-1], a.name)
                if lit is not None:
                    imported_consts[a.asname or a.name] = lit
    priv_aliases = {k: v for k, v in aliases.items() if v.startswith("_")}
    if imported_consts or priv_aliases:
        rebound = {x.id for x in ast.walk(tree) if isinstance(x, ast.Name) and isinstance(x.ctx, ast.Store)}

        class K(ast.NodeTransformer):
            def visit_Name(self, node):
                if isinstance(node.ctx, ast.Load) and node.id in imported_consts and node.id not in rebound:
                    return ast.copy_location(copy.deepcopy(imported_consts[node.id]), node)
                return node

            def visit_Attribute(self, node):
                self.generic_visit(node)
                if isinstance(node.ctx, ast.Load) and isinstance(node.value, ast.Name) and node.value.id in priv_aliases:
                    lit = literal_of(priv_aliases[node.value.id], node.attr)
                    if lit is not None:
                        return ast.copy_location(copy.deepcopy(lit), node)
                return node
        K().visit(tree)
    if aliases:
        class R(ast.NodeTransformer):
            def visit_Call(self, node):
                self.generic_visit(node)
                f = node.func
                if isinstance(f, ast.Attribute) and isinstance(f.value, ast.Name) and f.value.id in aliases \
                        and (f.attr.startswith("_") or aliases[f.value.id].startswith("_")) and not f.attr.startswith("__"):
                    src = raw_trees[aliases[f.value.id]]
                    for d in src.body:
                        if isinstance(d, ast.FunctionDef) and d.name == f.attr:
                            local = "%s__%s" % (f.attr, f.value.id)
                            out[local] = d
                            node.func = ast.copy_location(ast.Name(id=local, ctx=ast.Load()), f)
                return node
        R().visit(tree)
    return out


def expand_partials(tree):
    """`g = functools.partial(F, a, k=v)` (g bound once, only ever called) -> every `g(x, y=z)` becomes `F(a, x, k=v, y=z)`.
    The bound arguments must be names / constants / tuples of them that are not re-bound before the last call."""
    n = 0
    for fn in ast.walk(tree):
        if not isinstance(fn, (ast.FunctionDef, ast.AsyncFunctionDef)):
            continue
        pos = None
        for st in [x for x in ast.walk(fn) if isinstance(x, ast.Assign)]:
            v = st.value
            if not (len(st.targets) == 1 and isinstance(st.targets[0], ast.Name) and isinstance(v, ast.Call) and v.args
                    and ast.unparse(v.func) in ("functools.partial", "partial")):
                continue
            g = st.targets[0].id
            names = [x for x in ast.walk(fn) if isinstance(x, ast.Name) and x.id == g]
            calls = [c for c in ast.walk(fn) if isinstance(c, ast.Call) and isinstance(c.func, ast.Name) and c.func.id == g]
            if not calls or len(names) != len(calls) + 1:
                continue
            bound = list(v.args[1:]) + [k.value for k in v.keywords]
            if any(k.arg is None for k in v.keywords) or any(isinstance(a, ast.Starred) for a in v.args):
                continue

            def simple(e):
                return isinstance(e, (ast.Name, ast.Constant)) or (isinstance(e, ast.Attribute) and isinstance(e.value, ast.Name)) or (
                    isinstance(e, ast.Tuple) and all(simple(x) for x in e.elts))
            if not all(simple(e) for e in bound) or not simple(v.args[0]):
                continue
            pos = pos or _positions(fn)
            last = max(pos[id(c)] for c in calls)
            if min(pos[id(c)] for c in calls) < pos[id(st)]:
                continue
            watch = {x.id for e in bound + [v.args[0]] for x in ast.walk(e) if isinstance(x, ast.Name)}
            if any(isinstance(x, ast.Name) and x.id in watch and isinstance(x.ctx, (ast.Store, ast.Del)) and pos[id(st)] < pos[id(x)] <= last
                   for x in ast.walk(fn)):
                continue
            if any(k2.arg in {k.arg for k in v.keywords} for c in calls for k2 in c.keywords if k2.arg):
                continue
            for c in calls:
                c.func = copy.deepcopy(v.args[0])
                c.args = [copy.deepcopy(a) for a in v.args[1:]] + list(c.args)
                c.keywords = [ast.keyword(arg=k.arg, value=copy.deepcopy(k.value)) for k in v.keywords] + list(c.keywords)
            st.value = ast.copy_location(ast.Constant(value=None), st.value)
            pos = None
            n += 1
    if n:
        ast.fix_missing_locations(tree)
    return n


def expand_kwargs_dicts(tree):
    """`kw = dict(a=x, b=y)` (or a display with constant string keys) that is only ever used as `**kw` in calls of the same
    function -> the keywords are written out at each call and the assignment is dropped.  Values must be names/constants/
    attribute reads of names that are not assigned between the dict and its uses."""
    n = 0
    for fn in ast.walk(tree):
        if not isinstance(fn, (ast.FunctionDef, ast.AsyncFunctionDef)):
            continue
        assigns = {}
        for st in ast.walk(fn):
            if isinstance(st, ast.Assign) and len(st.targets) == 1 and isinstance(st.targets[0], ast.Name):
                assigns.setdefault(st.targets[0].id, []).append(st)
        for name, sts in assigns.items():
            if len(sts) != 1:
                continue
            st = sts[0]
            v = st.value
            pairs = None
            if isinstance(v, ast.Call) and isinstance(v.func, ast.Name) and v.func.id == "dict" and not v.args and v.keywords \
                    and all(k.arg for k in v.keywords):
                pairs = [(k.arg, k.value) for k in v.keywords]
            elif isinstance(v, ast.Dict) and v.keys and all(isinstance(k, ast.Constant) and isinstance(k.value, str) and k.value.isidentifier()
                                                            for k in v.keys):
                pairs = [(k.value, x) for k, x in zip(v.keys, v.values)]
            if not pairs:
                continue
            if not all(isinstance(x, (ast.Name, ast.Constant)) or (isinstance(x, ast.Attribute) and isinstance(x.value, ast.Name))
                       for _, x in pairs):
                continue
            uses = [x for x in ast.walk(fn) if isinstance(x, ast.Name) and x.id == name and x is not st.targets[0]]
            kw_uses = [(c, k) for c in ast.walk(fn) if isinstance(c, ast.Call) for k in c.keywords if k.arg is None
                       and isinstance(k.value, ast.Name) and k.value.id == name]
            if not kw_uses or len(kw_uses) != len(uses):
                continue
            if any(isinstance(x, (ast.Global, ast.Nonlocal)) and name in x.names for x in ast.walk(fn)):
                continue
            last = max(c.end_lineno for c, _ in kw_uses)
            if min(c.lineno for c, _ in kw_uses) <= st.lineno:
                continue
            vnames = {y.id for _, x in pairs for y in ast.walk(x) if isinstance(y, ast.Name)}
            clobbered = False
            for x in ast.walk(fn):
                if isinstance(x, ast.Name) and isinstance(x.ctx, (ast.Store, ast.Del)) and x.id in vnames and st.end_lineno < x.lineno <= last:
                    clobbered = True
            if clobbered:
                continue
            # the call must not already pass one of the keys
            if any(k2.arg in dict(pairs) for c, _ in kw_uses for k2 in c.keywords if k2.arg):
                continue
            for c, k in kw_uses:
                i = c.keywords.index(k)
                c.keywords[i:i + 1] = [ast.copy_location(ast.keyword(arg=a, value=copy.deepcopy(x)), k) for a, x in pairs]
            st.value = ast.copy_location(ast.Constant(value=None), st.value)
            n += 1
    if n:
        ast.fix_missing_locations(tree)
    return n


def normalize(tree, extern=None, modname=None):
    stats = {"match": desugar_match(tree), "suppress": lower_suppress(tree), "walrus": lower_walrus_if(tree) + lower_walrus_while(tree)}
    stats["kwargs_dicts"] = expand_kwargs_dicts(tree)
    stats["partials"] = expand_partials(tree)
    stats["records"] = scalarize_local_records(tree)
    stats.update({"constants": propagate_constants(tree, modname), "inlined": 0, "resugared": resugar_loops(tree)})
    stats["builtin_idioms"] = lower_builtin_idioms(tree)
    stats["writerows"] = lower_writerows(tree)
    stats["zip_count"] = lower_zip_count(tree)
    stats["dict_dispatch"] = lower_dict_dispatch(tree)
    stats["varargs"] = specialise_varargs(tree, modname)
    stats["refolded"] = refold_wrapper_calls(tree, modname)
    stats["generators"] = inline_simple_generators(tree, extern, modname)
    stats["found_flag"] = resugar_found_flag(tree)
    stats["closures"] = inline_local_closures(tree, modname)
    for _ in range(MAX_ROUNDS):
        n = inline_helpers(tree, extern, modname)
        stats["inlined"] += n
        if not n:
            break
    stats["found_flag"] += resugar_found_flag(tree)      # find-first helpers that were just expanded
    stats["tail_returns"] = resugar_tail_returns(tree)
    stats["records"] += scalarize_local_records(tree)      # records built by helpers that were just expanded
    stats["expr_inlined"] = inline_expression_helpers(tree, extern)
    stats["release_callables"] = lower_release_callables(tree)
    stats["param_copies"] = propagate_param_copies(tree)
    stats["aliases"] = propagate_aliases(tree)
    stats["local_tables"] = propagate_local_tables(tree)
    stats["unrolled"] = unroll_constant_loops(tree)
    if stats["unrolled"]:
        stats["live_ranges"] = split_live_ranges(tree)
        stats["aliases"] += propagate_aliases(tree)
    stats["local_dicts"] = scalarize_local_dicts(tree)
    stats["self_assign"] = drop_self_assignments(tree)
    stats["bool_temps"] = inline_bool_temps(tree)
    stats["getsetattr"] = lower_getsetattr(tree)
    stats["ifexp"] = lower_ifexp(tree)
    stats["sentinels"] = propagate_sentinels(tree)
    stats["selectors"] = propagate_selectors(tree)
    stats["dict_copies"] = propagate_dict_copies(tree)
    stats["multi_assign"] = split_multi_assign(tree)
    stats["tests"] = canonical_tests(tree)
    return stats


# ------------------------------------------------------------------------------------------------ package-level passes

def _dict_keys_of_call(call, trees):
    """constant keys of the dict a package function returns (`**get_section_widths(...)`), or None when unknown"""
    f = call.func
    nm = f.id if isinstance(f, ast.Name) else (f.attr if isinstance(f, ast.Attribute) else None)
    if nm is None:
        return None
    cands = [d for t in trees.values() for d in ast.walk(t) if isinstance(d, ast.FunctionDef) and d.name == nm]
    if len(cands) != 1:
        return None
    fn = cands[0]
    keys = set()
    for r_ in ast.walk(fn):
        if isinstance(r_, ast.Return):
            v = r_.value
            if isinstance(v, ast.Dict) and all(isinstance(k, ast.Constant) for k in v.keys):
                keys |= {k.value for k in v.keys}
            elif isinstance(v, ast.Name):
                for a in ast.walk(fn):
                    if isinstance(a, ast.Assign):
                        for t in a.targets:
                            if isinstance(t, ast.Name) and t.id == v.id:
                                if isinstance(a.value, ast.Dict) and all(isinstance(k, ast.Constant) for k in a.value.keys):
                                    keys |= {k.value for k in a.value.keys}
                                else:
                                    return None
                            if isinstance(t, ast.Subscript) and isinstance(t.value, ast.Name) and t.value.id == v.id:
                                if isinstance(t.slice, ast.Constant):
                                    keys.add(t.slice.value)
                                else:
                                    return None
            else:
                return None
    return keys or None


_COMMON_METHOD_NAMES = {"get", "keys", "values", "items", "append", "insert", "extend", "pop", "update", "index", "count", "read",
                        "write", "close", "strip", "split", "join", "format", "copy", "sort", "remove", "clear", "add", "seek", "tell",
                        "readline", "readlines", "setdefault", "startswith", "endswith", "replace", "find", "search", "match", "sub",
                        "open", "encode", "decode", "lower", "upper", "set", "info", "debug", "warning", "error", "max", "min", "mean"}


def propagate_default_params(trees):
    """A parameter with a literal default that no call inside the package ever supplies (positionally, by keyword, or through
    an unknown `**mapping`) has that literal as its value in every execution the package itself starts; for functions that
    *are* called inside the package such parameters are replaced by the literal (a new optional keyword whose default
    reproduces the old hard-coded value therefore analyses like the old code).  Public entry points that are never called
    inside the package keep all their parameters."""
    total = 0
    calls_by_name = {}
    for t in trees.values():
        for c in ast.walk(t):
            if isinstance(c, ast.Call):
                f = c.func
                nm = f.id if isinstance(f, ast.Name) else (f.attr if isinstance(f, ast.Attribute) else None)
                if nm and not (isinstance(f, ast.Attribute) and nm in _COMMON_METHOD_NAMES):
                    calls_by_name.setdefault(nm, []).append(c)
    import json as _json
    import os as _os
    try:
        reference = _json.load(open(_os.path.join(_os.path.dirname(_os.path.abspath(__file__)), "api_reference.json")))
    except Exception:  # noqa
        reference = None
    if reference is None:
        return 0

    def quals(node, prefix, acc):
        for ch in ast.iter_child_nodes(node):
            if isinstance(ch, (ast.FunctionDef, ast.AsyncFunctionDef)):
                acc[id(ch)] = prefix + "." + ch.name
                quals(ch, prefix + "." + ch.name, acc)
            elif isinstance(ch, ast.ClassDef):
                quals(ch, prefix + "." + ch.name, acc)
            else:
                quals(ch, prefix, acc)
    qual_of = {}
    for modname, t in trees.items():
        quals(t, modname, qual_of)
    # functions that do not exist today and that nothing else in the package calls are additions outside every property:
    # call sites inside them say nothing about how today's API behaves
    all_fns = [x for t in trees.values() for x in ast.walk(t) if isinstance(x, ast.FunctionDef)]
    dead_calls = set()
    for _ in range(3):
        grew = False
        for fn in all_fns:
            if qual_of.get(id(fn), "") in reference or fn.name.startswith("__"):
                continue
            own = {id(c) for c in ast.walk(fn) if isinstance(c, ast.Call)}
            outside = [c for c in calls_by_name.get(fn.name, []) if id(c) not in own and id(c) not in dead_calls]
            if not outside and not own <= dead_calls:
                dead_calls |= own
                grew = True
        if not grew:
            break
    if dead_calls:
        calls_by_name = {k: [c for c in v if id(c) not in dead_calls] for k, v in calls_by_name.items()}
    for modname, t in trees.items():
        for fn in [x for x in ast.walk(t) if isinstance(x, ast.FunctionDef)]:
            name = fn.name
            known_params = reference.get(qual_of.get(id(fn), ""))
            callee_names = [name] + (["__call__"] if name == "__init__" else [])
            sites = list(calls_by_name.get(name, []))
            if name == "__init__":
                # constructor calls: ClassName(...)
                cls = getattr(fn, "_parent_class", None)
                if cls:
                    sites += calls_by_name.get(cls, [])
            if known_params is None and not sites:
                continue      # a new function nobody in the package calls: an entry point, all its parameters are free
            own_calls = {id(c) for c in ast.walk(fn) if isinstance(c, ast.Call)}
            changed_flag = [False]
            a = fn.args
            pos = [x.arg for x in a.args]
            is_method = bool(pos) and pos[0] in ("self", "cls")
            defaults = dict(zip(pos[len(pos) - len(a.defaults):], a.defaults))
            defaults.update({x.arg: d for x, d in zip(a.kwonlyargs, a.kw_defaults) if d is not None})
            if not defaults:
                continue
            stored = {x.id for x in ast.walk(fn) if isinstance(x, ast.Name) and isinstance(x.ctx, (ast.Store, ast.Del))}
            for p_, d in defaults.items():
                if not _is_literal(d) or isinstance(d, ast.Tuple) or p_ in stored:
                    continue
                if known_params is not None and p_ in known_params:
                    continue      # a parameter of today's API: the properties range over all its values
                idx = pos.index(p_) if p_ in pos else None
                supplied = False
                for c in sites:
                    npos = len(c.args)
                    if any(isinstance(x, ast.Starred) for x in c.args):
                        supplied = True
                        break
                    if idx is not None:
                        eff = idx - (1 if is_method and isinstance(c.func, ast.Attribute) else 0)
                        if is_method and isinstance(c.func, ast.Name):
                            eff = idx - 1      # ClassName(...) constructor call
                        if npos > eff >= 0:
                            av = c.args[eff]
                            if _is_literal(av) and ast.dump(av) == ast.dump(d):
                                pass       # the caller passes the default itself
                            elif isinstance(av, ast.Name) and av.id == p_ and id(c) in own_calls:
                                pass
                            else:
                                supplied = True
                                break
                    for k in c.keywords:
                        if k.arg == p_:
                            # the recursive call f(..., p=p) hands the same value on
                            if isinstance(k.value, ast.Name) and k.value.id == p_ and id(c) in own_calls:
                                continue
                            if _is_literal(k.value) and ast.dump(k.value) == ast.dump(d):
                                continue
                            supplied = True
                        if k.arg is None:
                            kv = k.value
                            if isinstance(kv, ast.Name):
                                # `**widths` where widths = get_section_widths(...) in the same function
                                host = next((f_ for f_ in all_fns if any(x is c for x in ast.walk(f_))), None)
                                ds = [a_.value for a_ in ast.walk(host) if isinstance(a_, ast.Assign) and any(
                                    isinstance(t_, ast.Name) and t_.id == kv.id for t_ in a_.targets)] if host is not None else []
                                if ds and all(isinstance(d_, ast.Call) for d_ in ds):
                                    ks = [_dict_keys_of_call(d_, trees) for d_ in ds]
                                    keys = None if any(x is None for x in ks) else set().union(*ks)
                                else:
                                    keys = None
                                if keys is None or p_ in keys:
                                    supplied = True
                                continue
                            keys = _dict_keys_of_call(k.value, trees) if isinstance(k.value, ast.Call) else None
                            if keys is None or p_ in keys:
                                supplied = True
                    if supplied:
                        break
                if supplied:
                    continue
                lit = d

                class R(ast.NodeTransformer):
                    def visit_FunctionDef(self, node):
                        if node is not fn and any(x.arg == p_ for x in node.args.args + node.args.kwonlyargs):
                            return node        # shadowed in a nested function
                        self.generic_visit(node)
                        return node

                    def visit_Lambda(self, node):
                        if any(x.arg == p_ for x in node.args.args):
                            return node
                        self.generic_visit(node)
                        return node

                    def visit_Name(self, node):
                        if node.id == p_ and isinstance(node.ctx, ast.Load):
                            changed_flag[0] = True
                            return ast.copy_location(copy.deepcopy(lit), node)
                        return node
                changed_flag[0] = False
                for st in fn.body:
                    R().visit(st)
                if changed_flag[0]:
                    total += 1
    for t in trees.values():
        ast.fix_missing_locations(t)
    return total


def _const_truth(t):
    """truth value of a test that does not depend on anything: True / False / None (unknown)"""
    if isinstance(t, ast.Constant):
        return bool(t.value)
    if isinstance(t, (ast.Tuple, ast.List, ast.Set)):
        return bool(t.elts) if all(not isinstance(e, ast.Starred) for e in t.elts) else None
    if isinstance(t, ast.Dict):
        return bool(t.keys) if all(k is not None for k in t.keys) else None
    if isinstance(t, ast.UnaryOp) and isinstance(t.op, ast.Not):
        v = _const_truth(t.operand)
        return None if v is None else (not v)
    if isinstance(t, ast.BoolOp):
        decisive = isinstance(t.op, ast.Or)       # `or` is decided by a true member, `and` by a false one
        for v_ in t.values:
            v = _const_truth(v_)
            if v is None:
                if any(isinstance(x, ast.Call) for x in ast.walk(v_)):
                    return None     # an earlier member with a call: it would still be evaluated
                continue
            if v == decisive:
                return decisive
        if all(_const_truth(v_) is not None for v_ in t.values):
            return not decisive
        return None
    if isinstance(t, ast.Compare) and len(t.ops) == 1 and isinstance(t.left, ast.Constant) and isinstance(t.comparators[0], ast.Constant) \
            and isinstance(t.ops[0], (ast.Is, ast.IsNot)) and (t.left.value is None or t.comparators[0].value is None):
        same = t.left.value is t.comparators[0].value
        return same if isinstance(t.ops[0], ast.Is) else not same
    if isinstance(t, ast.Compare) and len(t.ops) == 1 and isinstance(t.ops[0], (ast.Is, ast.IsNot)) \
            and isinstance(t.left, ast.Attribute) and isinstance(t.comparators[0], ast.Attribute) \
            and all(isinstance(x.value, ast.Name) and x.value.id in ("np", "numpy") for x in (t.left, t.comparators[0])):
        # np.int64 is np.int64 / np.int64 is np.float64 (after a loop over a tuple of numpy types was unrolled)
        same = t.left.attr == t.comparators[0].attr
        return same if isinstance(t.ops[0], ast.Is) else not same
    if isinstance(t, ast.Compare) and len(t.ops) == 1 and isinstance(t.left, ast.Constant) and isinstance(t.left.value, (str, int)) \
            and not isinstance(t.left.value, bool):
        r = t.comparators[0]
        if isinstance(t.ops[0], (ast.Eq, ast.NotEq)) and isinstance(r, ast.Constant) and type(r.value) is type(t.left.value):
            return (t.left.value == r.value) == isinstance(t.ops[0], ast.Eq)
        if isinstance(t.ops[0], (ast.In, ast.NotIn)) and isinstance(r, (ast.Tuple, ast.List, ast.Set)) and all(
                isinstance(e, ast.Constant) and type(e.value) is type(t.left.value) for e in r.elts):
            return (t.left.value in [e.value for e in r.elts]) == isinstance(t.ops[0], ast.In)
    return None


def fold_constant_strings(tree):
    """`"a" + "b"` -> "ab"; `"%s.%s%s%s" % (x, y, " : ", z)` -> `"%s.%s : %s" % (x, y, z)` (plain %s placeholders only);
    f(*("a", 1)) -> f("a", 1); `if <literal>:` pruned"""
    n = [0]

    class F(ast.NodeTransformer):
        def visit_Subscript(self, node):
            self.generic_visit(node)
            # ("WRAP", "", "YES", "..")[0] -> "WRAP": a constant position of a literal tuple of constants
            if isinstance(node.ctx, ast.Load) and isinstance(node.value, ast.Tuple) and node.value.elts \
                    and all(isinstance(e_, ast.Constant) for e_ in node.value.elts):
                idx = node.slice.value if isinstance(node.slice, ast.Constant) and isinstance(node.slice.value, int) and not isinstance(
                    node.slice.value, bool) else (-node.slice.operand.value if isinstance(node.slice, ast.UnaryOp) and isinstance(node.slice.op, ast.USub)
                                                  and isinstance(node.slice.operand, ast.Constant) and isinstance(node.slice.operand.value, int) else None)
                if idx is not None and -len(node.value.elts) <= idx < len(node.value.elts):
                    n[0] += 1
                    return ast.copy_location(ast.Constant(value=node.value.elts[idx].value), node)
            return node

        def visit_BinOp(self, node):
            self.generic_visit(node)
            if isinstance(node.op, ast.Add) and isinstance(node.left, ast.Constant) and isinstance(node.right, ast.Constant) \
                    and isinstance(node.left.value, str) and isinstance(node.right.value, str):
                n[0] += 1
                return ast.copy_location(ast.Constant(value=node.left.value + node.right.value), node)
            if isinstance(node.op, ast.Mod) and isinstance(node.left, ast.Constant) and isinstance(node.left.value, str) \
                    and isinstance(node.right, ast.Tuple) and any(isinstance(e, ast.Constant) and isinstance(e.value, str) for e in node.right.elts):
                tpl = node.left.value
                parts = tpl.split("%s")
                if len(parts) == len(node.right.elts) + 1 and "%" not in "".join(parts).replace("%%", ""):
                    new_parts = [parts[0]]
                    keep = []
                    for e, nxt in zip(node.right.elts, parts[1:]):
                        if isinstance(e, ast.Constant) and isinstance(e.value, str):
                            new_parts[-1] += e.value.replace("%", "%%") + nxt
                        else:
                            keep.append(e)
                            new_parts.append(nxt)
                    n[0] += 1
                    node.left = ast.copy_location(ast.Constant(value="%s".join(new_parts)), node.left)
                    node.right = ast.copy_location(ast.Tuple(elts=keep, ctx=ast.Load()), node.right)
            return node

        def visit_IfExp(self, node):
            self.generic_visit(node)
            v = _const_truth(node.test)
            if v is not None:
                n[0] += 1
                return node.body if v else node.orelse
            return node

        def visit_Call(self, node):
            self.generic_visit(node)
            if any(isinstance(a, ast.Starred) and isinstance(a.value, (ast.Tuple, ast.List)) for a in node.args):
                new = []
                for a in node.args:
                    if isinstance(a, ast.Starred) and isinstance(a.value, (ast.Tuple, ast.List)):
                        new.extend(a.value.elts)
                        n[0] += 1
                    else:
                        new.append(a)
                node.args = new
            return node
    F().visit(tree)

    def prune(stmts):
        out = []
        for st in stmts:
            if isinstance(st, ast.If):
                val = _const_truth(st.test)
                if val is not None:
                    n[0] += 1
                    out.extend(st.body if val else st.orelse)
                    continue
            out.append(st)
        # statements after an unconditional return / raise / break / continue of the same block are dead
        for i_, st in enumerate(out):
            if isinstance(st, (ast.Return, ast.Raise, ast.Break, ast.Continue)) and i_ + 1 < len(out):
                if n[0]:
                    out = out[:i_ + 1]
                break
        return out or [ast.Pass()]
    _map_blocks(tree, prune)
    if n[0]:
        ast.fix_missing_locations(tree)
    return n[0]
