"""Per-function statement-level control-flow graph with exception edges.

Nodes are statements (or the test / iteration part of compound statements).  ``finally`` bodies and
``with`` exits are duplicated per continuation kind (normal / exception / return / break / continue),
so that path queries see the real flow through clean-up code.

Edge labels: next, true, false, body, exhausted, loop, exc, handler, unhandled, unhandled-base,
return, break, continue.
"""
import ast
from collections import deque

from . import AnalysisError
from .loader import walk_expr_shallow


class Node(object):
    __slots__ = ("id", "kind", "ast", "label", "copy_of")

    def __init__(self, id, kind, astnode=None, label=""):
        self.id = id
        self.kind = kind
        self.ast = astnode
        self.label = label
        self.copy_of = None

    @property
    def line(self):
        return getattr(self.ast, "lineno", 0)

    def text(self, n=70):
        if self.ast is None:
            return self.kind
        if self.kind == "test":
            t = "if/while " + ast.unparse(self.ast)
        elif self.kind == "for-iter":
            t = "for %s in %s" % (ast.unparse(self.ast.target), ast.unparse(self.ast.iter))
        elif self.kind == "with-enter":
            t = "with " + ", ".join(ast.unparse(i) for i in self.ast.items)
        elif self.kind == "with-exit":
            t = "<exit of with %s>" % ", ".join(ast.unparse(i.context_expr) for i in self.ast.items)
        elif self.kind == "handler":
            t = "except %s" % (ast.unparse(self.ast.type) if self.ast.type else "")
        elif self.kind == "dispatch":
            t = "<except dispatch>"
        elif isinstance(self.ast, (ast.FunctionDef, ast.ClassDef)):
            t = "def %s" % self.ast.name
        else:
            t = ast.unparse(self.ast)
        t = " ".join(t.split())
        return t if len(t) <= n else t[: n - 3] + "..."

    def __repr__(self):
        return "<%d %s L%d %s>" % (self.id, self.kind, self.line, self.text(40))


class _Loop(object):
    def __init__(self, head, after):
        self.head, self.after = head, after


class _Try(object):
    def __init__(self, dispatch):
        self.dispatch = dispatch


class _Finally(object):
    def __init__(self, body):
        self.body = body
        self.copies = {}


class _WithExit(object):
    def __init__(self, with_node):
        self.with_node = with_node
        self.lineno = with_node.lineno


_SAFE_CALLS = {"hasattr", "isinstance", "callable", "id", "type"}
_LOGGER_NAMES = {"logger", "logging"}


def default_may_raise(node):
    """Conservative: anything that evaluates a call, subscript, attribute, arithmetic, iteration..."""
    if isinstance(node, (ast.Raise, ast.Assert, ast.Import, ast.ImportFrom, ast.Delete)):
        return True
    if isinstance(node, (ast.Pass, ast.Break, ast.Continue, ast.Global, ast.Nonlocal)):
        return False
    if isinstance(node, (ast.FunctionDef, ast.ClassDef, ast.AsyncFunctionDef)):
        return bool(node.decorator_list)
    if isinstance(node, ast.Assign):
        for t in node.targets:
            if isinstance(t, (ast.Tuple, ast.List)):
                if not (isinstance(node.value, (ast.Tuple, ast.List)) and len(node.value.elts) == len(t.elts)):
                    return True
    for sub in walk_expr_shallow(node):
        if isinstance(sub, ast.Call):
            f = sub.func
            if isinstance(f, ast.Name) and f.id in _SAFE_CALLS:
                continue
            if isinstance(f, ast.Attribute) and isinstance(f.value, ast.Name) and f.value.id in _LOGGER_NAMES:
                continue
            return True
        if isinstance(sub, (ast.Subscript, ast.BinOp, ast.Yield, ast.YieldFrom, ast.Await, ast.Starred,
                            ast.ListComp, ast.SetComp, ast.DictComp, ast.GeneratorExp, ast.JoinedStr)):
            return True
        if isinstance(sub, ast.Attribute):
            if isinstance(sub.value, ast.Name) and sub.value.id in _LOGGER_NAMES:
                continue
            return True
        if isinstance(sub, ast.Compare):
            if any(isinstance(op, (ast.In, ast.NotIn, ast.Lt, ast.Gt, ast.LtE, ast.GtE, ast.Eq, ast.NotEq))
                   for op in sub.ops):
                # comparisons of arbitrary objects may raise; comparisons of plain names with constants via is/is not don't
                if all(isinstance(op, (ast.Is, ast.IsNot)) for op in sub.ops):
                    continue
                operands = [sub.left] + list(sub.comparators)
                if all(isinstance(o, (ast.Name, ast.Constant)) for o in operands) and all(
                        isinstance(op, (ast.Eq, ast.NotEq)) for op in sub.ops):
                    continue
                return True
    return False


def is_exc_label(lab):
    """edge taken because an exception is propagating (raised here, or resumed after a finally copy)"""
    return lab.endswith("exc") or lab.startswith("unhandled")


def is_catch_all(handler):
    if handler.type is None:
        return "all"
    names = []
    t = handler.type
    for e in (t.elts if isinstance(t, ast.Tuple) else [t]):
        names.append(ast.unparse(e))
    if "BaseException" in names:
        return "all"
    if "Exception" in names:
        return "exception"
    return None


EXC = "EXC"   # pass skip_labels=EXC to ignore every exceptional edge


def _skip(lab, skip_labels):
    if skip_labels is EXC:
        return is_exc_label(lab)
    return lab in skip_labels


class CFG(object):
    def __init__(self, func_node, may_raise=default_may_raise, name=""):
        self.func = func_node
        self.name = name
        self.may_raise = may_raise
        self.nodes = []
        self.succ = {}
        self.pred = {}
        self.entry = self._new("entry", func_node)
        self.exit = self._new("exit", None)
        self.raise_exit = self._new("raise-exit", None)
        self.stmt_nodes = {}   # id(ast stmt) -> [node ids]  (several for finally copies)
        if isinstance(func_node, ast.Lambda):
            n = self._new("stmt", ast.Return(value=func_node.body, lineno=func_node.lineno,
                                             col_offset=func_node.col_offset))
            self._edge(self.entry, n, "next")
            if self.may_raise(func_node.body):
                self._edge(n, self.raise_exit, "exc")
            self._edge(n, self.exit, "return")
        else:
            front = self._block(func_node.body, [(self.entry, "next")], [])
            for p, lab in front:
                self._edge(p, self.exit, lab if lab != "next" else "fallthrough")

    # ---- graph primitives ----
    def _new(self, kind, astnode, label=""):
        n = Node(len(self.nodes), kind, astnode, label)
        self.nodes.append(n)
        self.succ[n.id] = []
        self.pred[n.id] = []
        if astnode is not None and kind not in ("entry",):
            self.stmt_nodes.setdefault(id(astnode), []).append(n.id)
        return n.id

    def _edge(self, a, b, label):
        if (b, label) not in self.succ[a]:
            self.succ[a].append((b, label))
            self.pred[b].append((a, label))

    def _connect(self, preds, target):
        for p, lab in preds:
            self._edge(p, target, lab)

    # ---- routing of jumps through frames ----
    def _exc_target(self, frames):
        """node id that an exception raised under `frames` flows to"""
        for i in range(len(frames) - 1, -1, -1):
            fr = frames[i]
            if isinstance(fr, _Try):
                return fr.dispatch
            if isinstance(fr, _Finally):
                return self._finally_copy(fr, frames[:i], "exc", None)
        return self.raise_exit

    def _finally_copy(self, fr, outer, kind, loop):
        key = (kind, id(loop))
        if key in fr.copies:
            return fr.copies[key]
        j = self._new("join", None, "finally[%s]" % kind)
        fr.copies[key] = j
        front = self._block(fr.body, [(j, "next")], outer, copy_tag=kind)
        # continue the jump outward
        if kind == "exc":
            tgt = self._exc_target(outer)
            for p, lab in front:
                self._edge(p, tgt, lab + "+exc" if lab in ("true", "false", "exhausted") else "exc")
        elif kind == "return":
            self._route("return", outer, front, None)
        elif kind in ("break", "continue"):
            self._route(kind, outer, front, loop)
        return j

    def _route(self, kind, frames, preds, loop):
        for i in range(len(frames) - 1, -1, -1):
            fr = frames[i]
            if isinstance(fr, _Finally):
                j = self._finally_copy(fr, frames[:i], kind, loop)
                self._connect(preds, j)
                return
            if isinstance(fr, _Loop) and kind in ("break", "continue"):
                if loop is None or fr is loop:
                    tgt = fr.after if kind == "break" else fr.head
                    for p, lab in preds:
                        self._edge(p, tgt, kind if lab in ("next",) else lab)
                    return
        if kind == "return":
            for p, lab in preds:
                self._edge(p, self.exit, "return")
        elif kind == "exc":
            for p, lab in preds:
                self._edge(p, self.raise_exit, "exc")
        else:
            raise AnalysisError("%s outside loop in %s" % (kind, self.name))

    def _innermost_loop(self, frames):
        for fr in reversed(frames):
            if isinstance(fr, _Loop):
                return fr
        return None

    # ---- statements ----
    def _simple(self, stmt, preds, frames, kind="stmt"):
        n = self._new(kind, stmt)
        self._connect(preds, n)
        if self.may_raise(stmt):
            self._edge(n, self._exc_target(frames), "exc")
        return n

    def _block(self, stmts, preds, frames, copy_tag=None):
        for stmt in stmts:
            if not preds:
                # unreachable code: still build it (dangling) so that rules can see it? skip.
                break
            preds = self._stmt(stmt, preds, frames)
        return preds

    def _stmt(self, stmt, preds, frames):
        if isinstance(stmt, _WithExit):
            n = self._new("with-exit", stmt.with_node)
            self._connect(preds, n)
            return [(n, "next")]
        if isinstance(stmt, ast.If):
            t = self._new("test", stmt.test)
            self.nodes[t].label = "if"
            self.stmt_nodes.setdefault(id(stmt), []).append(t)
            self._connect(preds, t)
            if self.may_raise(stmt.test):
                self._edge(t, self._exc_target(frames), "exc")
            f1 = self._block(stmt.body, [(t, "true")], frames)
            f2 = self._block(stmt.orelse, [(t, "false")], frames) if stmt.orelse else [(t, "false")]
            return f1 + f2
        if isinstance(stmt, ast.While):
            t = self._new("test", stmt.test)
            self.nodes[t].label = "while"
            self.stmt_nodes.setdefault(id(stmt), []).append(t)
            self._connect(preds, t)
            if self.may_raise(stmt.test):
                self._edge(t, self._exc_target(frames), "exc")
            after = self._new("join", None, "after-loop")
            loop = _Loop(t, after)
            body_front = self._block(stmt.body, [(t, "true")], frames + [loop])
            for p, lab in body_front:
                self._edge(p, t, "loop")
            const_true = isinstance(stmt.test, ast.Constant) and bool(stmt.test.value)
            if not const_true:
                if stmt.orelse:
                    f = self._block(stmt.orelse, [(t, "false")], frames)
                    self._connect(f, after)
                else:
                    self._edge(t, after, "false")
            return [(after, "next")] if self.pred[after] else []
        if isinstance(stmt, (ast.For, ast.AsyncFor)):
            h = self._new("for-iter", stmt)
            self._connect(preds, h)
            self._edge(h, self._exc_target(frames), "exc")
            after = self._new("join", None, "after-loop")
            loop = _Loop(h, after)
            body_front = self._block(stmt.body, [(h, "body")], frames + [loop])
            for p, lab in body_front:
                self._edge(p, h, "loop")
            if stmt.orelse:
                f = self._block(stmt.orelse, [(h, "exhausted")], frames)
                self._connect(f, after)
            else:
                self._edge(h, after, "exhausted")
            return [(after, "next")]
        if isinstance(stmt, (ast.With, ast.AsyncWith)):
            n = self._new("with-enter", stmt)
            self._connect(preds, n)
            self._edge(n, self._exc_target(frames), "exc")
            fr = _Finally([_WithExit(stmt)])
            front = self._block(stmt.body, [(n, "next")], frames + [fr])
            if front:
                x = self._new("with-exit", stmt)
                self._connect(front, x)
                return [(x, "next")]
            return []
        if isinstance(stmt, ast.Try) or stmt.__class__.__name__ == "TryStar":
            fin = _Finally(stmt.finalbody) if stmt.finalbody else None
            base = frames + ([fin] if fin else [])
            if stmt.handlers:
                d = self._new("dispatch", stmt)
                tr = _Try(d)
                body_front = self._block(stmt.body, preds, base + [tr])
                if stmt.orelse:
                    body_front = self._block(stmt.orelse, body_front, base)
                fronts = list(body_front)
                total = None
                for h in stmt.handlers:
                    hn = self._new("handler", h)
                    self._edge(d, hn, "handler")
                    fronts += self._block(h.body, [(hn, "next")], base)
                    ca = is_catch_all(h)
                    if ca == "all":
                        total = "all"
                        break
                    if ca == "exception" and total is None:
                        total = "exception"
                if total is None:
                    self._edge(d, self._exc_target(base), "unhandled")
                elif total == "exception":
                    self._edge(d, self._exc_target(base), "unhandled-base")
            else:
                fronts = self._block(stmt.body, preds, base)
                if stmt.orelse:
                    fronts = self._block(stmt.orelse, fronts, base)
            if fin:
                if fronts:
                    j = self._new("join", None, "finally[normal]")
                    self._connect(fronts, j)
                    return self._block(stmt.finalbody, [(j, "next")], frames)
                return []
            return fronts
        if isinstance(stmt, ast.Return):
            n = self._simple(stmt, preds, frames)
            self._route("return", frames, [(n, "next")], None)
            return []
        if isinstance(stmt, ast.Raise):
            n = self._new("stmt", stmt)
            self._connect(preds, n)
            self._edge(n, self._exc_target(frames), "exc")
            return []
        if isinstance(stmt, ast.Break):
            n = self._simple(stmt, preds, frames)
            self._route("break", frames, [(n, "next")], self._innermost_loop(frames))
            return []
        if isinstance(stmt, ast.Continue):
            n = self._simple(stmt, preds, frames)
            self._route("continue", frames, [(n, "next")], self._innermost_loop(frames))
            return []
        if stmt.__class__.__name__ == "Match":
            raise AnalysisError("match statement not modelled (%s line %d)" % (self.name, stmt.lineno))
        n = self._simple(stmt, preds, frames)
        return [(n, "next")]

    # ---- queries ----
    def nodes_for(self, astnode):
        return list(self.stmt_nodes.get(id(astnode), []))

    def node_of_expr(self, expr):
        """CFG node ids whose statement (or test) contains `expr`"""
        cur = expr
        while cur is not None:
            ids = self.stmt_nodes.get(id(cur))
            if ids:
                return list(ids)
            cur = getattr(cur, "_parent", None)
        return []

    def successors(self, n, skip_labels=()):
        return [t for t, lab in self.succ[n] if not _skip(lab, skip_labels)]

    def reachable(self, src, avoid=(), skip_labels=(), include_src=False):
        avoid = set(avoid)
        seen = set()
        dq = deque([src])
        first = True
        while dq:
            n = dq.popleft()
            if n in seen:
                continue
            if n in avoid and not first:
                continue
            first = False
            seen.add(n)
            for t, lab in self.succ[n]:
                if _skip(lab, skip_labels) or t in avoid:
                    continue
                if t not in seen:
                    dq.append(t)
        if not include_src:
            # src counts as reached only if on a cycle
            on_cycle = any(src == t for n in seen for t, lab in self.succ[n] if not _skip(lab, skip_labels))
            if not on_cycle:
                seen.discard(src)
        return seen

    def find_path(self, src, targets, avoid=(), skip_labels=(), forbid_edges=()):
        """shortest path (list of node ids) from src to any of targets not passing through avoid nodes nor
        forbid_edges (set of (from, to, label))"""
        targets = set(targets)
        avoid = set(avoid)
        prev = {src: None}
        dq = deque([src])
        while dq:
            n = dq.popleft()
            for t, lab in self.succ[n]:
                if _skip(lab, skip_labels) or t in avoid or (forbid_edges and (n, t, lab) in forbid_edges):
                    continue
                if t in targets:
                    path = [t, n]
                    while prev[path[-1]] is not None:
                        path.append(prev[path[-1]])
                    return list(reversed(path))
                if t not in prev:
                    prev[t] = n
                    dq.append(t)
        return None

    def describe_path(self, path, limit=14):
        out = []
        for i in path:
            nd = self.nodes[i]
            if nd.kind == "join":
                continue
            out.append("L%d:%s" % (nd.line, nd.text(50)) if nd.ast is not None else nd.kind)
        if len(out) > limit:
            out = out[: limit // 2] + ["..."] + out[-limit // 2:]
        return out

    def dump(self):
        lines = []
        for n in self.nodes:
            lines.append("%3d %-10s L%-4d %-50s -> %s" % (
                n.id, n.kind, n.line, n.text(50), ", ".join("%d[%s]" % (t, l) for t, l in self.succ[n.id])))
        return "\n".join(lines)


def build_cfg(project, fi, may_raise=default_may_raise):
    key = ("cfg", fi.qual, may_raise)
    return project.cached(key, lambda: CFG(fi.node, may_raise=may_raise, name=fi.qual))
