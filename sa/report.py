"""Rule instances, known-findings matching, evidence files and the exit protocol."""
import json
import os
import time

from . import AnalysisError

VERIF = os.path.dirname(os.path.dirname(os.path.abspath(__file__)))
KNOWN_FILE = os.path.join(VERIF, "KNOWN_FINDINGS.txt")


class Instance(object):
    __slots__ = ("rule", "site", "file", "line", "ok", "msg", "path", "nontrivial")

    def __init__(self, rule, site, file, line, ok, msg, path=None, nontrivial=True):
        self.rule, self.site, self.file, self.line = rule, site, file, line
        self.ok, self.msg, self.path, self.nontrivial = ok, msg, path, nontrivial

    def key(self):
        return (self.rule, self.site)

    def as_dict(self):
        d = {"rule": self.rule, "site": self.site, "where": "%s:%s" % (self.file, self.line),
             "verdict": "ok" if self.ok else "violation", "detail": self.msg}
        if self.path:
            d["path"] = self.path
        return d


class Ctx(object):
    """What a rule sees: the parsed project plus an instance recorder."""

    def __init__(self, project, tier="quick"):
        self.p = project
        self.tier = tier
        self.instances = []
        self.floors = {}
        self.notes = []
        self.stats = {}
        self.undecided_list = []

    def _where(self, fi, node):
        file = fi.file if fi is not None else "?"
        line = getattr(node, "lineno", None) if node is not None and not isinstance(node, int) else node
        if line is None and fi is not None:
            line = fi.line
        return file, line or 0

    def ok(self, rule, site, fi, node, msg, nontrivial=True):
        file, line = self._where(fi, node)
        self.instances.append(Instance(rule, site, file, line, True, msg, None, nontrivial))

    def bad(self, rule, site, fi, node, msg, path=None):
        file, line = self._where(fi, node)
        self.instances.append(Instance(rule, site, file, line, False, msg, path, True))

    def check(self, cond, rule, site, fi, node, okmsg, badmsg, path=None):
        if cond:
            self.ok(rule, site, fi, node, okmsg)
        else:
            self.bad(rule, site, fi, node, badmsg, path)
        return cond

    def undecided(self, rule, site, fi, node, why):
        """the construct the rule needs is not present in a form the rule understands (e.g. after a restructuring):
        no verdict.  Recorded in the evidence; never an alarm."""
        file, line = self._where(fi, node)
        inst = Instance(rule, site, file, line, True, "UNDECIDED: " + why, None, False)
        self.instances.append(inst)
        self.undecided_list.append({"rule": rule, "site": site, "why": why})

    def floor(self, rule, n):
        """the rule must have evaluated at least n instances (confirmed by hand on the reference tree)"""
        self.floors[rule] = max(n, self.floors.get(rule, 0))

    def note(self, text):
        self.notes.append(text)

    def stat(self, key, value):
        self.stats[key] = self.stats.get(key, 0) + value

    def verify_floors(self):
        counts = {}
        for i in self.instances:
            counts[i.rule] = counts.get(i.rule, 0) + 1
        bad_rules = {i.rule for i in self.instances if not i.ok} | {u["rule"] for u in self.undecided_list}
        for rule, n in self.floors.items():
            if rule in bad_rules:
                continue   # a violated rule may stop early; the violation is the verdict
            if counts.get(rule, 0) < n:
                raise AnalysisError("rule %s evaluated %d instance(s), fewer than the %d confirmed on the "
                                    "reference tree: the rule lost its anchors" % (rule, counts.get(rule, 0), n))
        return counts


def load_known():
    known, fixed = {}, []
    if not os.path.exists(KNOWN_FILE):
        return known, fixed
    with open(KNOWN_FILE, encoding="utf-8") as f:
        for raw in f:
            line = raw.strip()
            if not line or line.startswith("#"):
                continue
            if line.startswith("known:"):
                head, _, what = line[len("known:"):].partition("::")
                kv = dict(tok.split("=", 1) for tok in head.split() if "=" in tok)
                known[(kv.get("property"), kv.get("rule"), kv.get("site"))] = what.strip()
            elif line.startswith("fixed:"):
                fixed.append(line[len("fixed:"):].strip())
    return known, fixed


def finish(prop_id, ctx, tier, seed, t0, explanation, assumptions, extra=None, selftest=None):
    """print verdict lines, write evidence, return exit status"""
    counts = ctx.verify_floors()
    known, fixed = load_known()
    outdir = os.path.join(VERIF, "out")
    os.makedirs(outdir, exist_ok=True)
    new, kn = [], []
    for inst in ctx.instances:
        if inst.ok:
            continue
        k = (prop_id, inst.rule, inst.site)
        if k in known:
            kn.append((inst, known[k]))
        else:
            new.append(inst)
    for inst, what in kn:
        print("KNOWN-FINDING: property=%s rule=%s site=%s %s:%s %s" % (
            prop_id, inst.rule, inst.site, inst.file, inst.line, what))
    for k, inst in enumerate(new):
        rp = os.path.join(outdir, "%s.violation.%d.json" % (prop_id, k))
        with open(rp, "w") as f:
            json.dump({"property": prop_id, "tier": tier, "root": ctx.p.root, **inst.as_dict()}, f, indent=1)
        print("VIOLATION property=%s replay=%s" % (prop_id, rp))
        print("  rule=%s site=%s at %s:%s" % (inst.rule, inst.site, inst.file, inst.line))
        print("  %s" % inst.msg)
        if inst.path:
            print("  path: " + " -> ".join(inst.path))
    seen = set()
    distinct = 0
    for i in ctx.instances:
        if i.nontrivial and i.key() not in seen:
            seen.add(i.key())
            distinct += 1
    samples = [i.as_dict() for i in ctx.instances if not i.ok][:10]
    per_rule_seen = set()
    for i in ctx.instances:
        if i.ok and i.rule not in per_rule_seen:
            per_rule_seen.add(i.rule)
            samples.append(i.as_dict())
    for i in ctx.instances:
        if len(samples) >= 40:
            break
        d = i.as_dict()
        if d not in samples:
            samples.append(d)
    cov = {
        "explanation": explanation,
        "evaluations": len(ctx.instances),
        "distinct_nontrivial": distinct,
        "rule": "one evaluation = one rule instance (rule id + construct) decided on the source under %s; "
                "non-trivial = carries an obligation on a concrete construct of the tree (not a census line); "
                "distinct = distinct (rule, site) pairs" % ctx.p.root,
        "samples": samples,
        "obligations": len(ctx.instances),
        "discharged": sum(1 for i in ctx.instances if i.ok) - len(ctx.undecided_list),
        "instances_per_rule": counts,
        "floors": ctx.floors,
        "modules": sorted(ctx.p.modules),
        "functions_indexed": len(ctx.p.functions),
        "source_digest": ctx.p.digest,
        "findings": {"new": len(new), "known": len(kn), "fixed_entries": len(fixed)},
        "notes": ctx.notes[:60],
        "undecided": ctx.undecided_list,
        "stats": ctx.stats,
        "exhaustive": False,
    }
    if extra:
        cov.update(extra)
    if selftest is not None:
        cov["selftest"] = selftest
    ev = {
        "property_id": prop_id,
        "tier": tier,
        "seed": seed,
        "level": "other",
        "coverage": cov,
        "assumptions": assumptions,
        "wall_s": round(time.time() - t0, 3),
        "violations": len(new),
    }
    evdir = os.path.join(VERIF, "evidence")
    os.makedirs(evdir, exist_ok=True)
    with open(os.path.join(evdir, prop_id + ".json"), "w") as f:
        json.dump(ev, f, indent=1, sort_keys=True, default=str)
        f.write("\n")
    for u in ctx.undecided_list:
        print("UNDECIDED: property=%s rule=%s site=%s %s" % (prop_id, u["rule"], u["site"], u["why"]))
    print("%s %s: %d rule instances over %d rules, %d discharged, %d known finding(s), %d violation(s), %d undecided [%s, %.2fs]" % (
        prop_id, tier, len(ctx.instances), len(counts), cov["discharged"], len(kn), len(new),
        len(ctx.undecided_list), ctx.p.root, time.time() - t0))
    return 1 if new else 0
