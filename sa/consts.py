"""Constant folding of module-level tables and pure expressions, without importing anything from lasio.

fold(expr, env) -> python value, or raises NotConst.
  - literals, containers, unary minus, string concatenation / repetition, % formatting of constants
  - re.compile(<const str>, <flags>) -> Regex(pattern, flags)
  - OrderedDict([...]) / dict(...) -> dict
  - np.nan -> float('nan')
  - names looked up in env (callable name -> value or raising NotConst)
  - pure str methods on constant receivers (upper, lower, casefold, strip, startswith, endswith, split, join, ljust ...)
  - comparisons (==, !=, <, <=, >, >=, in, not in, is, is not), and/or/not, conditional expressions
This is truth-table / constant folding of side-effect-free expressions, not execution of lasio code.
"""
import ast
import re

SAFE_STR_METHODS = {"upper", "lower", "casefold", "strip", "lstrip", "rstrip", "startswith", "endswith", "split",
                    "rsplit", "join", "replace", "find", "rfind", "count", "title", "capitalize", "isdigit",
                    "isalpha", "isspace", "ljust", "rjust", "splitlines", "partition", "rpartition", "format", "swapcase", "index",
                    "isdecimal", "isnumeric", "isascii", "isalnum", "removeprefix", "removesuffix", "zfill", "center"}
RE_FLAGS = {"IGNORECASE": re.IGNORECASE, "I": re.IGNORECASE, "ASCII": re.ASCII, "A": re.ASCII, "VERBOSE": re.VERBOSE,
            "X": re.VERBOSE, "MULTILINE": re.MULTILINE, "M": re.MULTILINE, "DOTALL": re.DOTALL, "S": re.DOTALL,
            "UNICODE": re.UNICODE, "U": re.UNICODE}


class NotConst(Exception):
    pass


class Regex(object):
    def __init__(self, pattern, flags=0):
        self.pattern = pattern
        self.flags = flags

    def __eq__(self, other):
        return isinstance(other, Regex) and (self.pattern, self.flags) == (other.pattern, other.flags)

    def __hash__(self):
        return hash((self.pattern, self.flags))

    def __repr__(self):
        return "Regex(%r, %d)" % (self.pattern, self.flags)


def fold(e, env=None):
    env = env or (lambda name: _raise(name))
    if isinstance(e, ast.Constant):
        return e.value
    if isinstance(e, ast.Name):
        if e.id in ("True", "False", "None"):
            return {"True": True, "False": False, "None": None}[e.id]
        return env(e.id)
    if isinstance(e, (ast.List, ast.Tuple, ast.Set)):
        vals = [fold(x, env) for x in e.elts]
        return vals if isinstance(e, ast.List) else (tuple(vals) if isinstance(e, ast.Tuple) else set(vals))
    if isinstance(e, ast.Dict):
        out = {}
        for k, v in zip(e.keys, e.values):
            if k is None:
                raise NotConst("dict unpacking")
            out[_hashable(fold(k, env))] = fold(v, env)
        return out
    if isinstance(e, ast.UnaryOp):
        v = fold(e.operand, env)
        if isinstance(e.op, ast.USub):
            return -v
        if isinstance(e.op, ast.UAdd):
            return +v
        if isinstance(e.op, ast.Not):
            return not v
        raise NotConst("unary")
    if isinstance(e, ast.BinOp):
        l, r = fold(e.left, env), fold(e.right, env)
        try:
            if isinstance(e.op, ast.Add):
                return l + r
            if isinstance(e.op, ast.Sub):
                return l - r
            if isinstance(e.op, ast.Mult):
                return l * r
            if isinstance(e.op, ast.Mod):
                return l % r
            if isinstance(e.op, ast.BitOr):
                return l | r
            if isinstance(e.op, ast.Div):
                return l / r
        except Exception as ex:  # noqa
            raise NotConst("binop failed: %s" % ex)
        raise NotConst("binop")
    if isinstance(e, ast.BoolOp):
        if isinstance(e.op, ast.And):
            v = True
            for x in e.values:
                v = fold(x, env)
                if not v:
                    return v
            return v
        v = False
        for x in e.values:
            v = fold(x, env)
            if v:
                return v
        return v
    if isinstance(e, ast.IfExp):
        return fold(e.body, env) if fold(e.test, env) else fold(e.orelse, env)
    if isinstance(e, ast.Compare):
        left = fold(e.left, env)
        for op, c in zip(e.ops, e.comparators):
            right = fold(c, env)
            try:
                if isinstance(op, ast.Eq):
                    ok = left == right
                elif isinstance(op, ast.NotEq):
                    ok = left != right
                elif isinstance(op, ast.In):
                    ok = left in right
                elif isinstance(op, ast.NotIn):
                    ok = left not in right
                elif isinstance(op, ast.Is):
                    ok = left is right
                elif isinstance(op, ast.IsNot):
                    ok = left is not right
                elif isinstance(op, ast.Lt):
                    ok = left < right
                elif isinstance(op, ast.LtE):
                    ok = left <= right
                elif isinstance(op, ast.Gt):
                    ok = left > right
                elif isinstance(op, ast.GtE):
                    ok = left >= right
                else:
                    raise NotConst("cmp")
            except TypeError as ex:
                raise NotConst("comparison failed: %s" % ex)
            if not ok:
                return False
            left = right
        return True
    if isinstance(e, ast.Subscript):
        v = fold(e.value, env)
        if isinstance(e.slice, ast.Slice):
            lo = fold(e.slice.lower, env) if e.slice.lower is not None else None
            hi = fold(e.slice.upper, env) if e.slice.upper is not None else None
            st = fold(e.slice.step, env) if e.slice.step is not None else None
            try:
                return v[lo:hi:st]
            except Exception as ex:  # noqa
                raise NotConst(str(ex))
        k = fold(e.slice, env)
        try:
            return v[k]
        except Exception as ex:  # noqa
            raise NotConst("subscript failed: %s" % ex)
    if isinstance(e, ast.Attribute):
        text = ast.unparse(e)
        if text in ("np.nan", "numpy.nan", "np.NaN", "np.NAN"):
            return float("nan")
        if isinstance(e.value, ast.Name) and e.value.id == "re" and e.attr in RE_FLAGS:
            return RE_FLAGS[e.attr]
        try:
            return env(text)
        except NotConst:
            pass
        try:
            base = fold(e.value, env)
        except NotConst:
            raise NotConst("attribute %s" % text)
        if isinstance(base, tuple) and hasattr(base, "_fields") and e.attr in base._fields:
            return getattr(base, e.attr)       # field of a record (namedtuple)
        raise NotConst("attribute %s" % text)
    if isinstance(e, (ast.ListComp, ast.GeneratorExp, ast.SetComp)):
        if len(e.generators) != 1:
            raise NotConst("nested comprehension")
        g = e.generators[0]
        seq = fold(g.iter, env)
        out = []
        for item in seq:
            bind = {}
            _bind_target(g.target, item, bind)

            def env2(name, bind=bind):
                if name in bind:
                    return bind[name]
                return env(name)
            if all(fold(c, env2) for c in g.ifs):
                out.append(fold(e.elt, env2))
        return set(out) if isinstance(e, ast.SetComp) else out
    if isinstance(e, ast.JoinedStr):
        out = ""
        for v in e.values:
            if isinstance(v, ast.Constant):
                out += v.value
            else:
                raise NotConst("f-string")
        return out
    if isinstance(e, ast.Call):
        f = e.func
        ftxt = ast.unparse(f)
        if ftxt in ("namedtuple", "collections.namedtuple") and len(e.args) >= 2:
            # a record type of the module: built here with the same field names (pure)
            import collections as _c
            tn, fields = fold(e.args[0], env), fold(e.args[1], env)
            kw = {k.arg: fold(k.value, env) for k in e.keywords if k.arg in ("defaults", "rename")}
            try:
                return _c.namedtuple(str(tn), fields, **kw)
            except Exception as ex:  # noqa
                raise NotConst("namedtuple: %s" % ex)
        if isinstance(f, ast.Attribute) and f.attr in ("_replace", "_asdict"):
            recv = fold(f.value, env)
            if isinstance(recv, tuple) and hasattr(recv, "_fields"):
                try:
                    return getattr(recv, f.attr)(**{k.arg: fold(k.value, env) for k in e.keywords if k.arg})
                except Exception as ex:  # noqa
                    raise NotConst("%s: %s" % (f.attr, ex))
        if isinstance(f, ast.Name):
            try:
                rec = env(f.id)
            except NotConst:
                rec = None
            if isinstance(rec, type) and issubclass(rec, tuple) and hasattr(rec, "_fields"):
                try:
                    return rec(*[fold(a, env) for a in e.args], **{k.arg: fold(k.value, env) for k in e.keywords if k.arg})
                except NotConst:
                    raise
                except Exception as ex:  # noqa
                    raise NotConst("record: %s" % ex)
        if ftxt in ("re.compile",):
            pat = fold(e.args[0], env)
            flags = 0
            if len(e.args) > 1:
                flags = fold(e.args[1], env)
            for k in e.keywords:
                if k.arg == "flags":
                    flags = fold(k.value, env)
            if not isinstance(pat, str):
                raise NotConst("pattern not str")
            return Regex(pat, int(flags))
        if ftxt in ("re.search", "re.match", "re.fullmatch") and 2 <= len(e.args) <= 3:
            args = [fold(a, env) for a in e.args]
            flags = args[2] if len(args) > 2 else 0
            for k in e.keywords:
                if k.arg == "flags":
                    flags = fold(k.value, env)
            pat = args[0].pattern if isinstance(args[0], Regex) else args[0]
            if not isinstance(pat, str) or not isinstance(args[1], str):
                raise NotConst("re call on non-strings")
            try:
                m = getattr(re, ftxt.split(".")[1])(pat, args[1], int(flags))
            except re.error as ex:
                raise NotConst("bad regex: %s" % ex)
            return m is not None
        if ftxt == "isinstance" and len(e.args) == 2 and not e.keywords:
            val = fold(e.args[0], env)
            tnames = [ast.unparse(t_) for t_ in (e.args[1].elts if isinstance(e.args[1], ast.Tuple) else [e.args[1]])]
            table = {"str": str, "int": int, "float": float, "bool": bool, "list": list, "tuple": tuple, "dict": dict, "bytes": bytes,
                     "basestring": (str, bytes)}
            if all(t_ in table for t_ in tnames):
                return isinstance(val, tuple(x for t_ in tnames for x in (table[t_] if isinstance(table[t_], tuple) else (table[t_],))))
            raise NotConst("isinstance against %s" % tnames)
        if ftxt in ("any", "all") and len(e.args) == 1 and not e.keywords:
            seq = fold(e.args[0], env)
            return any(seq) if ftxt == "any" else all(seq)
        if ftxt in ("OrderedDict", "dict", "collections.OrderedDict") and len(e.args) <= 1:
            out = {}
            if e.args:
                seq = fold(e.args[0], env)
                if isinstance(seq, dict):
                    out.update(seq)
                else:
                    for kv in seq:
                        out[_hashable(kv[0])] = kv[1]
            for k in e.keywords:
                if k.arg is None:
                    raise NotConst("**")
                out[k.arg] = fold(k.value, env)
            return out
        if ftxt in ("len", "str", "int", "float", "bool", "tuple", "list", "set", "frozenset", "sorted", "min", "max",
                    "abs", "any", "all") and not e.keywords:
            args = [fold(a, env) for a in e.args]
            try:
                return {"len": len, "str": str, "int": int, "float": float, "bool": bool, "tuple": tuple, "list": list,
                        "set": set, "frozenset": frozenset, "sorted": sorted, "min": min, "max": max, "abs": abs,
                        "any": any, "all": all}[ftxt](*args)
            except Exception as ex:  # noqa
                raise NotConst("builtin failed: %s" % ex)
        if isinstance(f, ast.Attribute) and f.attr in ("search", "match", "fullmatch") and len(e.args) == 1:
            try:
                recv = fold(f.value, env)
            except NotConst:
                recv = None
            if isinstance(recv, Regex):
                arg = fold(e.args[0], env)
                if isinstance(arg, str):
                    return getattr(re, f.attr)(recv.pattern, arg, recv.flags) is not None
        if isinstance(f, ast.Attribute) and f.attr in SAFE_STR_METHODS:
            recv = fold(f.value, env)
            if isinstance(recv, str):
                args = [fold(a, env) for a in e.args]
                try:
                    return getattr(recv, f.attr)(*args)
                except Exception as ex:  # noqa
                    raise NotConst("str method failed: %s" % ex)
        if isinstance(f, ast.Attribute) and f.attr in ("issuperset", "issubset", "isdisjoint") and len(e.args) == 1 and not e.keywords:
            recv = fold(f.value, env)
            if isinstance(recv, (set, frozenset)):
                arg = fold(e.args[0], env)
                try:
                    return getattr(recv, f.attr)(arg)
                except Exception as ex:  # noqa
                    raise NotConst("set method failed: %s" % ex)
        if isinstance(f, ast.Attribute) and f.attr in ("get",):
            recv = fold(f.value, env)
            if isinstance(recv, dict):
                args = [fold(a, env) for a in e.args]
                return recv.get(*args)
        if isinstance(f, ast.Name) or (isinstance(f, ast.Attribute) and isinstance(f.value, ast.Name)):
            # a pure table-building helper of the module or of an imported lasio module (straight-line assignments, +=, if,
            # for, return)
            try:
                fn = env("def " + (f.id if isinstance(f, ast.Name) else f.value.id + "." + f.attr))
            except NotConst:
                fn = None
            if isinstance(fn, FuncRef):
                args = [fold(a, env) for a in e.args]
                kwargs = {k.arg: fold(k.value, env) for k in e.keywords if k.arg}
                return _interpret(fn, args, kwargs)
        raise NotConst("call %s" % ftxt)
    raise NotConst(type(e).__name__)


class FuncRef(object):
    def __init__(self, node, env):
        self.node, self.env = node, env


class _Return(Exception):
    def __init__(self, value):
        self.value = value


def _interpret(fn, args, kwargs, _depth=[0]):
    node = fn.node
    a = node.args
    if a.vararg or a.kwarg or a.kwonlyargs or getattr(a, "posonlyargs", []):
        raise NotConst("signature of %s" % node.name)
    params = [x.arg for x in a.args]
    if len(args) > len(params):
        raise NotConst("arity")
    local = dict(zip(params, args))
    for k, v in kwargs.items():
        if k not in params or k in local:
            raise NotConst("keyword %s" % k)
        local[k] = v
    for p_, d in zip(params[len(params) - len(a.defaults):], a.defaults):
        if p_ not in local:
            local[p_] = fold(d, fn.env)
    if any(p_ not in local for p_ in params):
        raise NotConst("missing argument")

    def env(name):
        if name in local:
            return local[name]
        return fn.env(name)
    steps = [0]

    def run(stmts):
        for st in stmts:
            steps[0] += 1
            if steps[0] > 5000:
                raise NotConst("too many steps")
            if isinstance(st, ast.Expr) and isinstance(st.value, ast.Constant):
                continue
            if isinstance(st, ast.Pass):
                continue
            if isinstance(st, ast.Return):
                raise _Return(None if st.value is None else fold(st.value, env))
            if isinstance(st, ast.Assign) and len(st.targets) == 1:
                _bind_target(st.targets[0], fold(st.value, env), local)
                continue
            if isinstance(st, ast.AugAssign) and isinstance(st.target, ast.Name) and isinstance(st.op, ast.Add):
                cur = env(st.target.id)
                val = fold(st.value, env)
                try:
                    local[st.target.id] = cur + (type(cur)(val) if isinstance(cur, (list, tuple)) else val)
                except Exception as ex:  # noqa
                    raise NotConst("+=: %s" % ex)
                continue
            if isinstance(st, ast.If):
                run(st.body if fold(st.test, env) else st.orelse)
                continue
            if isinstance(st, ast.For) and not st.orelse:
                for v in fold(st.iter, env):
                    _bind_target(st.target, v, local)
                    run(st.body)
                continue
            if isinstance(st, ast.Expr) and isinstance(st.value, ast.Call) and isinstance(st.value.func, ast.Attribute) \
                    and st.value.func.attr in ("append", "extend") and isinstance(st.value.func.value, ast.Name) \
                    and st.value.func.value.id in local and isinstance(local[st.value.func.value.id], list) and len(st.value.args) == 1:
                v = fold(st.value.args[0], env)
                if st.value.func.attr == "append":
                    local[st.value.func.value.id] = local[st.value.func.value.id] + [v]
                else:
                    local[st.value.func.value.id] = local[st.value.func.value.id] + list(v)
                continue
            raise NotConst("statement %s in %s" % (type(st).__name__, node.name))
    _depth[0] += 1
    try:
        if _depth[0] > 12:
            raise NotConst("call depth")
        try:
            run(node.body)
        except _Return as r:
            return r.value
        return None
    finally:
        _depth[0] -= 1


def _bind_target(t, value, bind):
    if isinstance(t, ast.Name):
        bind[t.id] = value
    elif isinstance(t, (ast.Tuple, ast.List)):
        vals = list(value)
        if len(vals) != len(t.elts):
            raise NotConst("unpack")
        for tt, vv in zip(t.elts, vals):
            _bind_target(tt, vv, bind)
    else:
        raise NotConst("target")


def _hashable(v):
    if isinstance(v, list):
        return tuple(v)
    return v


def _raise(name):
    raise NotConst("name %s" % name)


def module_env(project, modname):
    """environment resolving module-level constants of a lasio module (and `defaults.X` style references)"""
    cache = {}

    def env(name):
        key = (modname, name)
        if key in cache:
            if cache[key] is _PENDING:
                raise NotConst("cyclic %s" % name)
            return cache[key]
        mod = project.modules.get(modname)
        if name.startswith("def "):
            fname, fmod = name[4:], mod
            if "." in fname:
                head, _, fname = fname.partition(".")
                imp = mod.imports.get(head) if mod else None
                fmod = project.modules.get(imp[1].split(".", 1)[1]) if imp and imp[0] == "module" and imp[1].startswith("lasio.") else None
            elif mod is not None and fname not in mod.functions:
                imp = mod.imports.get(fname)
                if imp and imp[0] == "name" and imp[1].startswith("lasio."):
                    fmod, fname = project.modules.get(imp[1].split(".", 1)[1]), imp[2]
            fi = fmod.functions.get(fname) if fmod else None
            if fi is None or fi.node.decorator_list:
                raise NotConst("no function %s" % name[4:])
            return FuncRef(fi.node, module_env(project, fmod.name))
        target_mod, target_name = mod, name
        if "." in name:
            head, _, rest = name.partition(".")
            imp = mod.imports.get(head) if mod else None
            if imp and imp[0] == "module" and imp[1].startswith("lasio."):
                target_mod = project.modules.get(imp[1].split(".", 1)[1])
                target_name = rest
            else:
                raise NotConst("name %s" % name)
        elif mod is not None and name not in mod.globals:
            imp = mod.imports.get(name)
            if imp and imp[0] == "name" and imp[1].startswith("lasio."):
                target_mod = project.modules.get(imp[1].split(".", 1)[1])
                target_name = imp[2]
        if target_mod is None or target_name not in target_mod.globals:
            raise NotConst("name %s" % name)
        vals = target_mod.globals[target_name]
        if len(vals) != 1 or vals[0] is None:
            raise NotConst("name %s assigned %d times" % (name, len(vals)))
        cache[key] = _PENDING
        try:
            v = fold(vals[0], module_env(project, target_mod.name))
        except NotConst:
            del cache[key]
            raise
        cache[key] = v
        return v
    return env


_PENDING = object()
