"""Regular expressions as objects of analysis: re._parser AST -> character sets over a probe alphabet,
NFA/DFA, language inclusion with witnesses, and per-group field summaries.

The probe alphabet is printable ASCII, the ASCII control blanks, and a few non-ASCII representatives (NBSP, a
Latin-1 letter, a Cyrillic letter, an Arabic-Indic digit, LINE SEPARATOR).  Character classes are compared as
sets over this alphabet, so `[^\\s]` == `\\S`, `[:]` == `:`; languages are decided over it.
"""
import re
import unicodedata

try:
    import re._parser as sre_parse
    import re._constants as sre_c
except ImportError:  # pragma: no cover (python < 3.11)
    import sre_parse
    import sre_constants as sre_c

ALPHABET = [chr(c) for c in range(32, 127)] + ["\t", "\n", "\r", "\x0b", "\x0c", "\xa0", "\xe9", "м", "١",
                                                  " ", "\x1a"]
ALPHASET = frozenset(ALPHABET)


class Unsupported(Exception):
    pass


def parse(pattern, flags=0):
    return sre_parse.parse(pattern, flags)


def _category(cat, ch, ascii_only):
    name = str(cat)
    neg = "NOT_" in name
    if "DIGIT" in name:
        v = ch in "0123456789" if ascii_only else (unicodedata.category(ch) == "Nd")
    elif "SPACE" in name:
        v = ch in " \t\n\r\x0b\x0c" if ascii_only else ch.isspace()
    elif "WORD" in name:
        v = (ch.isascii() and (ch.isalnum() or ch == "_")) if ascii_only else (ch.isalnum() or ch == "_")
    else:
        raise Unsupported("category %s" % name)
    return (not v) if neg else v


def charset(op, av, flags=0):
    """set of probe characters matched by a single-character node"""
    ascii_only = bool(flags & re.ASCII)
    icase = bool(flags & re.IGNORECASE)
    out = set()
    if op is sre_c.LITERAL:
        out = {chr(av)} & ALPHASET if chr(av) in ALPHASET else {chr(av)}
    elif op is sre_c.NOT_LITERAL:
        out = {c for c in ALPHABET if c != chr(av)}
    elif op is sre_c.ANY:
        out = {c for c in ALPHABET if (flags & re.DOTALL) or c != "\n"}
    elif op is sre_c.IN:
        negate = False
        acc = set()
        for (o, a) in av:
            if o is sre_c.NEGATE:
                negate = True
            elif o is sre_c.LITERAL:
                acc.add(chr(a))
            elif o is sre_c.RANGE:
                lo, hi = a
                acc |= {c for c in ALPHABET if lo <= ord(c) <= hi}
            elif o is sre_c.CATEGORY:
                acc |= {c for c in ALPHABET if _category(a, c, ascii_only)}
            else:
                raise Unsupported("in-item %s" % o)
        out = {c for c in ALPHABET if c not in acc} if negate else acc
    elif op is sre_c.CATEGORY:
        out = {c for c in ALPHABET if _category(av, c, ascii_only)}
    else:
        raise Unsupported("not a single-char node: %s" % op)
    if icase:
        extra = set()
        for c in out:
            extra |= {c.lower(), c.upper()}
        out |= {c for c in extra if len(c) == 1}
    return frozenset(out)


# ------------------------------------------------------------------------------------------------ NFA

class NFA(object):
    def __init__(self):
        self.n = 0
        self.eps = {}
        self.trans = {}

    def new(self):
        s = self.n
        self.n += 1
        self.eps[s] = set()
        self.trans[s] = []
        return s


def _build(nfa, items, flags, start):
    """returns end state after consuming the sequence `items` from `start`"""
    cur = start
    for op, av in items:
        if op in (sre_c.LITERAL, sre_c.NOT_LITERAL, sre_c.ANY, sre_c.IN, sre_c.CATEGORY):
            cs = charset(op, av, flags)
            nxt = nfa.new()
            nfa.trans[cur].append((cs, nxt))
            cur = nxt
        elif op is sre_c.SUBPATTERN:
            group, add_flags, del_flags, sub = av
            cur = _build(nfa, sub, (flags | add_flags) & ~del_flags, cur)
        elif op is sre_c.BRANCH:
            _, branches = av
            end = nfa.new()
            for br in branches:
                s = nfa.new()
                nfa.eps[cur].add(s)
                e = _build(nfa, br, flags, s)
                nfa.eps[e].add(end)
            cur = end
        elif op in (sre_c.MAX_REPEAT, sre_c.MIN_REPEAT) or str(op) == "POSSESSIVE_REPEAT":
            lo, hi, sub = av
            for _ in range(lo):
                cur = _build(nfa, sub, flags, cur)
            if hi is sre_c.MAXREPEAT or hi == sre_c.MAXREPEAT:
                loop_start = nfa.new()
                nfa.eps[cur].add(loop_start)
                e = _build(nfa, sub, flags, loop_start)
                nfa.eps[e].add(loop_start)
                cur = loop_start
            else:
                end = nfa.new()
                nfa.eps[cur].add(end)
                for _ in range(hi - lo):
                    cur = _build(nfa, sub, flags, cur)
                    nfa.eps[cur].add(end)
                cur = end
        elif op is sre_c.AT:
            # anchors are immaterial for full-match languages; ^/$ inside would need care: accept only edge anchors
            continue
        elif op in (sre_c.ASSERT, sre_c.ASSERT_NOT):
            raise Unsupported("look-around")
        elif op is sre_c.GROUPREF:
            raise Unsupported("back-reference")
        elif str(op) == "ATOMIC_GROUP":
            cur = _build(nfa, av, flags, cur)
        else:
            raise Unsupported(str(op))
    return cur


class DFA(object):
    def __init__(self, pattern, flags=0):
        self.pattern = pattern
        tree = parse(pattern, flags)
        flags = tree.state.flags | flags
        nfa = NFA()
        s0 = nfa.new()
        end = _build(nfa, list(tree), flags, s0)
        self._nfa, self._accept = nfa, end

        def closure(states):
            st = set(states)
            work = list(states)
            while work:
                s = work.pop()
                for t in nfa.eps[s]:
                    if t not in st:
                        st.add(t)
                        work.append(t)
            return frozenset(st)
        start = closure({s0})
        self.start = start
        self.states = {start: 0}
        self.delta = {}
        self.accepting = set()
        work = [start]
        while work:
            S = work.pop()
            i = self.states[S]
            if end in S:
                self.accepting.add(i)
            for ch in ALPHABET:
                tgt = set()
                for s in S:
                    for cs, t in nfa.trans[s]:
                        if ch in cs:
                            tgt.add(t)
                T = closure(tgt) if tgt else frozenset()
                if T not in self.states:
                    self.states[T] = len(self.states)
                    work.append(T)
                self.delta[(i, ch)] = self.states[T]
        self.nstates = len(self.states)

    def accepts(self, s):
        i = 0
        for ch in s:
            if ch not in ALPHASET:
                return None
            i = self.delta[(i, ch)]
        return i in self.accepting


def included(a, b, prefer=None):
    """L(a) subset of L(b)?  returns (True, None) or (False, witness string in L(a) \\ L(b))"""
    from collections import deque
    order = list(prefer or "0123456789.,+-eE_ ") + [c for c in ALPHABET]
    seen = {(0, 0): None}
    dq = deque([(0, 0)])
    while dq:
        st = dq.popleft()
        i, j = st
        if i in a.accepting and j not in b.accepting:
            out = []
            cur = st
            while seen[cur] is not None:
                prev, ch = seen[cur]
                out.append(ch)
                cur = prev
            return False, "".join(reversed(out))
        done = set()
        for ch in order:
            if ch in done:
                continue
            done.add(ch)
            nxt = (a.delta[(i, ch)], b.delta[(j, ch)])
            if nxt not in seen:
                seen[nxt] = (st, ch)
                dq.append(nxt)
    return True, None


# ------------------------------------------------------------------------------------------------ summaries

def describe_set(cs):
    """compact, canonical description of a probe-character set"""
    cs = frozenset(cs)
    if cs == ALPHASET:
        return "ANY"
    if cs == ALPHASET - {"\n"}:
        return "ANY-but-newline"
    comp = ALPHASET - cs
    if len(comp) <= 6:
        return "NOT{" + "".join(sorted(repr(c)[1:-1] for c in comp)) + "}"
    if len(cs) <= 12:
        return "{" + "".join(sorted(repr(c)[1:-1] for c in cs)) + "}"
    return "SET(%d)" % len(cs)


WS = frozenset(c for c in ALPHABET if c.isspace())


def flatten(items, flags=0, groups=None, path=()):
    """linearise a pattern into a list of elements:
       ("chars", frozenset, lo, hi, greedy, group path)  |  ("lit", text)  |  ("assert", dir, neg, [alt summaries])
       | ("group-open", name) | ("group-close", name) | ("branch", [[...], ...]) | ("at", where)
    """
    out = []
    for op, av in items:
        if op in (sre_c.LITERAL, sre_c.NOT_LITERAL, sre_c.ANY, sre_c.IN, sre_c.CATEGORY):
            out.append(("chars", charset(op, av, flags), 1, 1, True))
        elif op in (sre_c.MAX_REPEAT, sre_c.MIN_REPEAT):
            lo, hi, sub = av
            hi = None if hi == sre_c.MAXREPEAT else hi
            sub = list(sub)
            if len(sub) == 1 and sub[0][0] in (sre_c.LITERAL, sre_c.NOT_LITERAL, sre_c.ANY, sre_c.IN, sre_c.CATEGORY):
                out.append(("chars", charset(sub[0][0], sub[0][1], flags), lo, hi, op is sre_c.MAX_REPEAT))
            else:
                out.append(("repeat", lo, hi, op is sre_c.MAX_REPEAT, flatten(sub, flags)))
        elif op is sre_c.SUBPATTERN:
            group, add_flags, del_flags, sub = av
            out.append(("group-open", group))
            out += flatten(sub, (flags | add_flags) & ~del_flags)
            out.append(("group-close", group))
        elif op is sre_c.BRANCH:
            out.append(("branch", [flatten(b, flags) for b in av[1]]))
        elif op in (sre_c.ASSERT, sre_c.ASSERT_NOT):
            direction, sub = av
            out.append(("assert", "ahead" if direction > 0 else "behind", op is sre_c.ASSERT_NOT, flatten(sub, flags)))
        elif op is sre_c.AT:
            out.append(("at", str(av)))
        elif op is sre_c.GROUPREF:
            out.append(("ref", av))
        else:
            out.append(("other", str(op)))
    return out


def group_names(pattern, flags=0):
    tree = parse(pattern, flags)
    return {v: k for k, v in tree.state.groupdict.items()}


def canonical(flat, names):
    """hashable canonical form of a flattened pattern (sets as sorted strings)"""
    out = []
    for el in flat:
        k = el[0]
        if k == "chars":
            out.append(("chars", "".join(sorted(el[1])), el[2], el[3], el[4]))
        elif k == "repeat":
            out.append(("repeat", el[1], el[2], el[3], canonical(el[4], names)))
        elif k == "branch":
            out.append(("branch", tuple(canonical(b, names) for b in el[1])))
        elif k == "assert":
            out.append(("assert", el[1], el[2], canonical(el[3], names)))
        elif k in ("group-open", "group-close"):
            out.append((k, names.get(el[1], None) if el[1] is not None else None))
        else:
            out.append(tuple(el))
    return tuple(out)
