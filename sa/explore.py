"""Explicit-state exploration of a CFG with light path sensitivity.

State = (node, known constants of plain names, rule-specific facts).  Tests are evaluated three-valued from
  - the known constants (set by `name = <const>` and by the outcome of `name ==/!= <const>`, `name is <const>` tests),
  - assumptions {expression text: bool} supplied by the rule (e.g. {"provisional_wrapped == 'YES'": True}),
and branches that contradict them are pruned.  Everything else is explored both ways (over-approximation).
"""
import ast
from collections import deque

from .cfg import is_exc_label
from .dataflow import node_defs

UNKNOWN = None


def _const(node):
    if isinstance(node, ast.Constant) and isinstance(node.value, (str, int, bool, float, type(None))):
        return True, node.value
    if isinstance(node, ast.UnaryOp) and isinstance(node.op, ast.USub) and isinstance(node.operand, ast.Constant) \
            and isinstance(node.operand.value, (int, float)):
        return True, -node.operand.value
    return False, None


def tv(expr, consts, assume):
    """three-valued truth of expr"""
    txt = ast.unparse(expr)
    if txt in assume:
        return assume[txt]
    if isinstance(expr, ast.Constant):
        return bool(expr.value)
    if isinstance(expr, ast.Name):
        if expr.id in consts:
            return bool(consts[expr.id])
        return UNKNOWN
    if isinstance(expr, ast.UnaryOp) and isinstance(expr.op, ast.Not):
        v = tv(expr.operand, consts, assume)
        return UNKNOWN if v is UNKNOWN else (not v)
    if isinstance(expr, ast.BoolOp):
        vals = [tv(v, consts, assume) for v in expr.values]
        if isinstance(expr.op, ast.And):
            if any(v is False for v in vals):
                return False
            if all(v is True for v in vals):
                return True
            return UNKNOWN
        if any(v is True for v in vals):
            return True
        if all(v is False for v in vals):
            return False
        return UNKNOWN
    if isinstance(expr, ast.Compare) and len(expr.ops) == 1:
        l, r = expr.left, expr.comparators[0]
        op = expr.ops[0]
        lv = rv = None
        lk, lval = _const(l)
        rk, rval = _const(r)
        if isinstance(l, ast.Name) and l.id in consts:
            lk, lval = True, consts[l.id]
        if isinstance(r, ast.Name) and r.id in consts:
            rk, rval = True, consts[r.id]
        if lk and rk:
            try:
                if isinstance(op, (ast.Eq, ast.Is)):
                    return lval == rval
                if isinstance(op, (ast.NotEq, ast.IsNot)):
                    return lval != rval
                if isinstance(op, ast.Lt):
                    return lval < rval
                if isinstance(op, ast.LtE):
                    return lval <= rval
                if isinstance(op, ast.Gt):
                    return lval > rval
                if isinstance(op, ast.GtE):
                    return lval >= rval
            except TypeError:
                return UNKNOWN
    return UNKNOWN


def learn(expr, outcome, consts):
    """constants implied by `expr` evaluating to `outcome`"""
    out = dict(consts)
    if isinstance(expr, ast.UnaryOp) and isinstance(expr.op, ast.Not):
        return learn(expr.operand, not outcome, consts)
    if isinstance(expr, ast.BoolOp):
        if (isinstance(expr.op, ast.And) and outcome) or (isinstance(expr.op, ast.Or) and not outcome):
            for v in expr.values:
                out = learn(v, outcome, out)
        return out
    if isinstance(expr, ast.Compare) and len(expr.ops) == 1:
        l, r = expr.left, expr.comparators[0]
        op = expr.ops[0]
        if isinstance(l, ast.Name):
            k, val = _const(r)
            if k and ((isinstance(op, (ast.Eq, ast.Is)) and outcome) or (isinstance(op, (ast.NotEq, ast.IsNot)) and not outcome)):
                out[l.id] = val
    if isinstance(expr, ast.Name) and isinstance(outcome, bool):
        # truthiness only: remember booleans
        if expr.id in consts and isinstance(consts[expr.id], bool):
            out[expr.id] = outcome
    return out


def explore(cfg, init_facts, transfer, assume=None, init_consts=None, skip_exc=True, start=None):
    """returns (seen, prev): seen[node] = set of (consts, facts) at node entry; prev for witness reconstruction.
    transfer(node, consts, facts, label) -> facts after taking the out-edge `label` of node (or None to prune)."""
    assume = assume or {}
    st0 = (start if start is not None else cfg.entry, frozenset((init_consts or {}).items()), init_facts)
    prev = {st0: None}
    dq = deque([st0])
    seen = {}
    while dq:
        st = dq.popleft()
        nid, cf, facts = st
        seen.setdefault(nid, set()).add((cf, facts))
        consts = dict(cf)
        node = cfg.nodes[nid]
        a = node.ast
        nconsts = dict(consts)
        if node.kind in ("stmt", "for-iter", "with-enter", "handler") and a is not None:
            for nm in node_defs(node):
                nconsts.pop(nm, None)
            if node.kind == "stmt" and isinstance(a, ast.Assign) and len(a.targets) == 1 and isinstance(a.targets[0], ast.Name):
                k, val = _const(a.value)
                if k:
                    nconsts[a.targets[0].id] = val
                elif isinstance(a.value, ast.Name) and a.value.id in consts:
                    nconsts[a.targets[0].id] = consts[a.value.id]      # a copy of a known value
        decided = tv(a, consts, assume) if node.kind == "test" else UNKNOWN
        for t, lab in cfg.succ[nid]:
            exc = is_exc_label(lab)
            if exc and skip_exc:
                continue
            ec = dict(nconsts)
            if node.kind == "test" and not exc:
                branch = lab.startswith("true")
                if decided is not UNKNOWN and decided != branch:
                    continue
                ec = learn(a, branch, ec)
            nf = transfer(node, consts, facts, lab)
            if nf is None:
                continue
            nst = (t, frozenset(ec.items()), nf)
            if nst not in prev:
                prev[nst] = st
                dq.append(nst)
    return seen, prev


def witness(prev, state):
    path = []
    cur = state
    while cur is not None:
        path.append(cur[0])
        cur = prev[cur]
    return list(reversed(path))
