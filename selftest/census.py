"""Sensitivity census for the thorough tier: how tightly do the rules of one property pin the code they anchor in?

Every function in which the quick run discharged at least one obligation is mutated with single syntactic operators
(negated condition, swapped comparison, and<->or, changed small constant, deleted call statement); each mutant is a scratch
copy of the tree under test that differs in one expression and still compiles.  The property's rules are re-run on every
mutant.  A mutant that changes a verdict (violation or analysis error) is *noticed*; one that leaves every verdict as it was
is *unnoticed* - either the edit is harmless for the property (most are: the rules state necessary conditions of one property,
not the whole behaviour) or no clause covers that expression.  The census is a measurement written to the evidence; it never
changes the exit status.  Nothing is executed."""
import ast
import hashlib
import os
import shutil
import sys
import tempfile
from multiprocessing import Pool

HERE = os.path.dirname(os.path.dirname(os.path.abspath(__file__)))
if HERE not in sys.path:
    sys.path.insert(0, HERE)

CMP_SWAP = {ast.Eq: "!=", ast.NotEq: "==", ast.Lt: "<=", ast.LtE: "<", ast.Gt: ">=", ast.GtE: ">", ast.Is: "is not", ast.IsNot: "is",
            ast.In: "not in", ast.NotIn: "in"}
MAX_PER_FUNCTION = 40
MAX_PER_PROPERTY = 240


def _segment(lines, node):
    """(start offset, end offset) of node in the joined source"""
    return node.lineno, node.col_offset, node.end_lineno, node.end_col_offset


def _offsets(src):
    offs = [0]
    for ln in src.split("\n"):
        offs.append(offs[-1] + len(ln.encode("utf-8")) + 1)
    return offs


def mutants_of_function(src, fn_node):
    """[(operator, lineno, description, (start, end, replacement))] - byte offsets into src (utf-8)"""
    data = src.encode("utf-8")
    offs = _offsets(src)

    def span(n):
        return offs[n.lineno - 1] + n.col_offset, offs[n.end_lineno - 1] + n.end_col_offset

    def text(n):
        a, b = span(n)
        return data[a:b].decode("utf-8")
    out = []
    for sub in ast.walk(fn_node):
        if isinstance(sub, (ast.If, ast.While)) and not isinstance(sub.test, ast.Constant):
            a, b = span(sub.test)
            out.append(("COND-NEG", sub.lineno, "negate `%s`" % text(sub.test)[:60], (a, b, "not (%s)" % text(sub.test))))
        if isinstance(sub, ast.Compare) and len(sub.ops) == 1 and type(sub.ops[0]) in CMP_SWAP:
            # operator text sits between left and comparator
            la, lb = span(sub.left)
            ra, rb = span(sub.comparators[0])
            out.append(("CMP-SWAP", sub.lineno, "`%s` -> operator %s" % (text(sub)[:60], CMP_SWAP[type(sub.ops[0])]),
                        (lb, ra, " %s " % CMP_SWAP[type(sub.ops[0])])))
        if isinstance(sub, ast.BoolOp) and len(sub.values) == 2:
            la, lb = span(sub.values[0])
            ra, rb = span(sub.values[1])
            gap = data[lb:ra].decode("utf-8")
            if "(" not in gap and ")" not in gap:
                new = " or " if isinstance(sub.op, ast.And) else " and "
                out.append(("BOOL-SWAP", sub.lineno, "`%s`: %s" % (text(sub)[:60], new.strip()), (lb, ra, new)))
        if isinstance(sub, ast.Constant) and not isinstance(getattr(sub, "_parent", None), ast.Expr):
            v = sub.value
            a, b = span(sub)
            if isinstance(v, bool):
                out.append(("CONST", sub.lineno, "%r -> %r" % (v, not v), (a, b, repr(not v))))
            elif isinstance(v, int) and -3 <= v <= 300:
                out.append(("CONST", sub.lineno, "%r -> %r" % (v, v + 1), (a, b, repr(v + 1))))
            elif isinstance(v, str) and 0 < len(v) <= 12 and "\n" not in v and isinstance(getattr(sub, "_parent", None), (ast.Compare, ast.Call, ast.Subscript, ast.Tuple, ast.List, ast.Dict)):
                raw = data[a:b].decode("utf-8")
                if raw[:1] in "\"'" and not raw.startswith(('"""', "'''")):
                    out.append(("CONST", sub.lineno, "%r -> %r" % (v, v + "_"), (a, b, repr(v + "_"))))
        if isinstance(sub, ast.Expr) and isinstance(sub.value, ast.Call) and sub is not fn_node:
            nm = ast.unparse(sub.value.func)
            if nm.startswith("logger.") or nm.startswith("logging.") or nm == "print":
                continue
            a, b = span(sub)
            out.append(("CALL-DEL", sub.lineno, "delete `%s`" % text(sub)[:60], (a, b, "pass")))
    return out


def _apply(src, edit):
    a, b, rep = edit
    data = src.encode("utf-8")
    return (data[:a] + rep.encode("utf-8") + data[b:]).decode("utf-8")


def _pick(cands, k, seed):
    if len(cands) <= k:
        return cands
    keyed = sorted(cands, key=lambda c: hashlib.sha256(("%s|%s|%s|%s" % (seed, c[0], c[1], c[2])).encode()).hexdigest())
    return sorted(keyed[:k], key=lambda c: (c[1], c[0]))


def _verdicts(prop, root):
    from selftest.runner import _bad_keys
    from sa import AnalysisError
    try:
        bad, n = _bad_keys(prop, root)
        return ("ok", sorted(tuple(b) for b in bad))
    except AnalysisError as e:
        return ("analysis-error", str(e)[:160])
    except Exception as e:  # noqa - a mutant may trip the analyser itself; count it as noticed, with the reason
        return ("analysis-error", "%s: %s" % (type(e).__name__, str(e)[:140]))


def _run_one(args):
    prop, root, relfile, newsrc, meta, baseline = args
    tmp = tempfile.mkdtemp(prefix="lasio_sa_census_")
    try:
        shutil.copytree(os.path.join(root, "lasio"), os.path.join(tmp, "lasio"), ignore=shutil.ignore_patterns("__pycache__", "*.pyc"))
        with open(os.path.join(tmp, relfile), "w", encoding="utf-8") as f:
            f.write(newsrc)
        kind, val = _verdicts(prop, tmp)
        if kind == "analysis-error":
            return dict(meta, outcome="noticed", how="analysis-error: " + val)
        new = [b for b in val if b not in baseline]
        if new:
            return dict(meta, outcome="noticed", how="%s@%s" % new[0], rules=sorted({b[0] for b in new}))
        return dict(meta, outcome="unnoticed")
    finally:
        shutil.rmtree(tmp, ignore_errors=True)


def run_census(prop, root, instances, seed=1, jobs=16):
    """instances: the quick run's rule instances (objects with .ok, .file, .site, .nontrivial)"""
    from sa.loader import Project
    project = Project(root)
    # functions that host at least one discharged, non-trivial obligation
    quals = {}
    for i in instances:
        if not i.ok or not getattr(i, "nontrivial", True) or not i.site:
            continue
        q = i.site.split("#")[0].split("@")[0]
        while q and q not in project.functions:
            q = q.rsplit(".", 1)[0] if "." in q else ""
        if q:
            quals.setdefault(q, set()).add(i.rule)
    near_lines = {}
    for i in instances:
        if i.ok and getattr(i, "nontrivial", True) and i.file and i.line:
            near_lines.setdefault(i.file, set()).update(range(int(i.line) - 3, int(i.line) + 4))
    kind0, baseline = _verdicts(prop, root)
    if kind0 != "ok":
        return {"error": "baseline: %s" % baseline}
    work = []
    per_fn = {}
    for q in sorted(quals):
        fi = project.functions[q]
        if isinstance(fi.node, ast.Lambda):
            continue
        path = os.path.join(root, fi.module.relpath)
        src = open(path, encoding="utf-8").read()
        try:
            tree = ast.parse(src)
        except SyntaxError:
            continue
        for n in ast.walk(tree):
            for c in ast.iter_child_nodes(n):
                c._parent = n
        # locate the same function in the un-normalised tree by name and line
        target = None
        for n in ast.walk(tree):
            if isinstance(n, (ast.FunctionDef, ast.AsyncFunctionDef)) and n.name == fi.node.name and n.lineno == fi.node.lineno:
                target = n
        if target is None:
            continue
        cands = []
        for (op, line, descr, edit) in mutants_of_function(src, target):
            new = _apply(src, edit)
            try:
                compile(new, path, "exec")
            except (SyntaxError, ValueError):
                continue
            cands.append((op, line, descr, new))
        nl = near_lines.get(fi.module.relpath, set())
        near = [c for c in cands if c[1] in nl]
        far = [c for c in cands if c[1] not in nl]
        chosen = _pick(near, MAX_PER_FUNCTION, "%s|%s" % (seed, q))
        chosen = chosen + _pick(far, max(0, MAX_PER_FUNCTION - len(chosen)) // 2, "%s|%s|far" % (seed, q))
        per_fn[q] = len(chosen)
        for (op, line, descr, new) in chosen:
            work.append((prop, root, fi.module.relpath, new, {"function": q, "operator": op, "line": line, "edit": descr,
                                                             "near": line in nl}, baseline))
    if len(work) > MAX_PER_PROPERTY:
        keyed = sorted(work, key=lambda w: hashlib.sha256(("%s|%s|%s|%s" % (seed, w[4]["function"], w[4]["line"], w[4]["edit"])).encode()).hexdigest())
        work = keyed[:MAX_PER_PROPERTY]
    if not work:
        return {"mutants": 0}
    with Pool(min(jobs, len(work))) as pool:
        res = pool.map(_run_one, work)
    by_op = {}
    by_rule = {}
    for r in res:
        o = by_op.setdefault(r["operator"], {"mutants": 0, "noticed": 0})
        o["mutants"] += 1
        o["noticed"] += r["outcome"] == "noticed"
        for rl in r.get("rules", []):
            by_rule[rl] = by_rule.get(rl, 0) + 1
    noticed = [r for r in res if r["outcome"] == "noticed"]
    unnoticed = [r for r in res if r["outcome"] == "unnoticed"]
    out = {
        "what": "single-operator syntactic mutants of the %d functions hosting discharged obligations; noticed = some rule verdict "
                "changed (violation or analysis error); unnoticed mutants are not claimed to break the property" % len(per_fn),
        "functions": len(per_fn),
        "mutants": len(res),
        "noticed": len(noticed),
        "noticed_by_analysis_error": sum(1 for r in noticed if r.get("how", "").startswith("analysis-error")),
        "near_sites": {"mutants": sum(1 for r in res if r.get("near")), "noticed": sum(1 for r in noticed if r.get("near")),
                       "meaning": "mutants within 3 lines of a construct on which a rule discharged an obligation"},
        "by_operator": by_op,
        "noticed_by_rule": dict(sorted(by_rule.items())),
        "analysis_errors": [{k: r[k] for k in ("function", "operator", "line", "edit", "how")} for r in noticed
                            if r.get("how", "").startswith("analysis-error")][:40],
        "sample_noticed": [{k: r[k] for k in ("function", "operator", "line", "edit", "how")} for r in noticed[:12]],
        "sample_unnoticed": [{k: r[k] for k in ("function", "operator", "line", "edit")} for r in unnoticed[:25]],
        "seed": seed,
    }
    print("census %s: %d single-operator mutants in %d anchored functions, %d change a verdict (%d via analysis error); near rule "
          "sites: %d of %d" % (prop, out["mutants"], out["functions"], out["noticed"], out["noticed_by_analysis_error"],
                               out["near_sites"]["noticed"], out["near_sites"]["mutants"]))
    return out
