"""Catalogue of source edits used to validate the checkers (see selftest/runner.py).

Each variant: id, props (properties whose check must react), rule (the rule that must fire; None = any),
kind (breaking | benign), edits = [(file, old text, new text)] - `old` must occur exactly once in the tree under
test, otherwise the variant is skipped (and counted as skipped).
"""
VARIANTS = []

LAS = "lasio/las.py"
RD = "lasio/reader.py"
WR = "lasio/writer.py"
IT = "lasio/las_items.py"
DF = "lasio/defaults.py"
XL = "lasio/excel.py"


def V(id, props, rule, kind, *edits, also=()):
    VARIANTS.append({"id": id, "props": list(props), "rule": rule, "kind": kind,
                     "edits": [tuple(e) for e in edits], "also": tuple(also)})


# ------------------------------------------------------------------------------------------ C20 / IO
V("io-write-no-finally", ["C20"], "IO.TYPESTATE", "breaking",
  (LAS, """        try:
            writer.write(self, file_ref, **kwargs)
        finally:
            if opened_file:
                file_ref.close()
""", """        writer.write(self, file_ref, **kwargs)
        if opened_file:
            file_ref.close()
"""))
V("io-write-close-only-on-success", ["C20"], "IO.TYPESTATE", "breaking",
  (LAS, """        finally:
            if opened_file:
                file_ref.close()

    def to_excel""", """        except ValueError:
            if opened_file:
                file_ref.close()
            raise
        if opened_file:
            file_ref.close()

    def to_excel"""))
V("io-write-closes-callers-handle", ["C20"], "IO.CALLER-OWNED", "breaking",
  (LAS, """        finally:
            if opened_file:
                file_ref.close()

    def to_excel""", """        finally:
            file_ref.close()

    def to_excel"""))
V("io-tocsv-flag-inverted", ["C20", "C18"], "IO.TYPESTATE", "breaking",
  (LAS, """                writer.writerow(self.data[i, :])
        finally:
            if opened_file:
                file_ref.close()""", """                writer.writerow(self.data[i, :])
        finally:
            if not opened_file:
                file_ref.close()"""), also=("IO.CALLER-OWNED",))
V("io-read-close-moved-out-of-finally", ["C20"], "IO.TYPESTATE", "breaking",
  (LAS, """        finally:
            if hasattr(file_obj, "close"):
                file_obj.close()
""", """        finally:
            pass
        if hasattr(file_obj, "close"):
            file_obj.close()
"""))
V("io-read-open-before-try", ["C20"], "IO.TYPESTATE", "breaking",
  (LAS, """        file_obj = ""
        try:
            file_obj, self.encoding = reader.open_file(file_ref, **kwargs)

            test_lidar = file_obj.read(4)
""", """        file_obj, self.encoding = reader.open_file(file_ref, **kwargs)
        test_lidar = file_obj.read(4)
        try:
"""))
V("io-open-with-codecs-raise-after-open", ["C20"], "IO.TYPESTATE", "breaking",
  (RD, """    file_obj = io.open(filename, mode="r", encoding=encoding, errors=encoding_errors)
    return file_obj, encoding""", """    file_obj = io.open(filename, mode="r", encoding=encoding, errors=encoding_errors)
    logger.info("Opened {} ({} bytes)".format(filename, os.path.getsize(filename)))
    return file_obj, encoding"""))
V("io-bom-sniff-without-with", ["C20"], "IO.TYPESTATE", "breaking",
  (RD, """    with open(filename, mode="rb") as test:
        raw = test.read(nbytes_test)
    if raw.startswith""", """    test = open(filename, mode="rb")
    raw = test.read(nbytes_test)
    test.close()
    if raw.startswith"""))
V("io-handle-kept-on-object", ["C20"], "IO.NO-ESCAPE", "breaking",
  (LAS, """            file_obj, self.encoding = reader.open_file(file_ref, **kwargs)
""", """            file_obj, self.encoding = reader.open_file(file_ref, **kwargs)
            self._file_obj = file_obj
"""))
V("io-benign-with-statement", ["C20"], None, "benign",
  (LAS, """        opened_file = False
        if isinstance(file_ref, basestring) and not hasattr(file_ref, "write"):
            opened_file = True
            file_ref = open(file_ref, "w")
        try:
            writer.write(self, file_ref, **kwargs)
        finally:
            if opened_file:
                file_ref.close()
""", """        if isinstance(file_ref, basestring) and not hasattr(file_ref, "write"):
            with open(file_ref, "w") as f:
                writer.write(self, f, **kwargs)
        else:
            writer.write(self, file_ref, **kwargs)
"""))
V("io-benign-rename-flag", ["C20"], None, "benign",
  (LAS, """        opened_file = False
        if isinstance(file_ref, basestring) and not hasattr(file_ref, "write"):
            opened_file = True
            file_ref = open(file_ref, "w")
        try:
            writer.write(self, file_ref, **kwargs)
        finally:
            if opened_file:
                file_ref.close()
""", """        we_own_it = False
        if isinstance(file_ref, basestring) and not hasattr(file_ref, "write"):
            we_own_it = True
            file_ref = open(file_ref, "w")
        try:
            logger.debug("writing")
            writer.write(self, file_ref, **kwargs)
        finally:
            if we_own_it is True:
                file_ref.close()
"""))

# ------------------------------------------------------------------------------------------ C19 / HDR
V("hdr-narrow-except", ["C19"], "HDR.CATCHALL", "breaking",
  (RD, """                values = read_line(line, section_name=parser.section_name2)
            except:""", """                values = read_line(line, section_name=parser.section_name2)
            except AttributeError:"""))
V("hdr-handler-breaks", ["C19"], "HDR.CATCHALL", "breaking",
  (RD, """                if ignore_header_errors:
                    logger.warning(message)
                else:""", """                if ignore_header_errors:
                    logger.warning(message)
                    break
                else:"""))
V("hdr-handler-always-raises", ["C19"], "HDR.CATCHALL", "breaking",
  (RD, """                if ignore_header_errors:
                    logger.warning(message)
                else:
                    raise exceptions.LASHeaderError(message)""", """                logger.warning(message)
                raise exceptions.LASHeaderError(message)"""))
V("hdr-item-built-after-try", ["C19"], "HDR.CATCHALL", "breaking",
  (RD, """            else:
                if mnemonic_case == "upper":
                    values["name"] = values["name"].upper()
                elif mnemonic_case == "lower":
                    values["name"] = values["name"].lower()
                item = parser(**values)
                logger.debug("Line {}: parsed as {}".format(line_no + 1, item))
                section.append(item)
""", """            if mnemonic_case == "upper":
                values["name"] = values["name"].upper()
            elif mnemonic_case == "lower":
                values["name"] = values["name"].lower()
            item = parser(**values)
            logger.debug("Line {}: parsed as {}".format(line_no + 1, item))
            section.append(item)
"""))
V("hdr-unguarded-index-in-metadata", ["C19"], "HDR.TOTAL", "breaking",
  (RD, """        if keys["name"].upper() not in number_strings:
            value = self.num(value)
""", """        if keys["name"].upper() not in number_strings and value[0] != "'":
            value = self.num(value)
"""))
V("hdr-orders-subscript", ["C19"], "HDR.TOTAL", "breaking",
  (RD, """        key_order = self.orders.get(keys["name"], self.default_order)""",
   """        key_order = self.orders[keys["name"]] if self.orders else self.default_order"""))
V("hdr-num-float-outside-try", ["C19"], "HDR.TOTAL", "breaking",
  (RD, """        try:
            return np.int64(x)
        except:
            try:
                x = np.float64(x)
            except:
                return default
""", """        try:
            return np.int64(x)
        except:
            x = np.float64(x)
"""))
V("hdr-wrong-key", ["C19"], "HDR.TOTAL", "breaking",
  (RD, """            keys["descr"],  # descr
        )
        return item

    def params""", """            keys["description"],  # descr
        )
        return item

    def params"""))
V("hdr-strip-brackets-guard-weakened", ["C19"], "HDR.TOTAL", "breaking",
  (RD, """        if len(x) >= 2:
            if (x[0] == "[" """, """        if len(x) >= 0:
            if (x[0] == "[" """))
V("hdr-lookup-unguarded", ["C19"], "HDR.STEER-LOOKUP", "breaking",
  (LAS, """                        if "WRAP" in sct_items:
                            provisional_wrapped = sct_items.WRAP.value""",
   """                        provisional_wrapped = sct_items.WRAP.value"""))
V("hdr-benign-except-exception", ["C19"], None, "benign",
  (RD, """                values = read_line(line, section_name=parser.section_name2)
            except:""", """                values = read_line(line, section_name=parser.section_name2)
            except Exception:"""))
V("hdr-benign-not-flag", ["C19"], None, "benign",
  (RD, """                if ignore_header_errors:
                    logger.warning(message)
                else:
                    raise exceptions.LASHeaderError(message)""", """                if not ignore_header_errors:
                    raise exceptions.LASHeaderError(message)
                logger.warning(message)"""))
