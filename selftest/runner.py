"""Checker self-validation: apply catalogued source edits to a scratch copy of the tree under test and
re-run the static rules on it.  breaking variants must make the named rule fire, benign twins must stay silent.
Nothing is executed: the edited copy is only parsed (compile() proves it is still valid Python)."""
import os
import shutil
import sys
import tempfile
import time
from multiprocessing import Pool

HERE = os.path.dirname(os.path.dirname(os.path.abspath(__file__)))
if HERE not in sys.path:
    sys.path.insert(0, HERE)


def _bad_keys(prop, root):
    from sa.loader import Project
    from sa.report import Ctx
    import props
    project = Project(root)
    ctx = Ctx(project, "quick")
    from sa import AnalysisError, ShapeNotRecognised
    errs = []
    for rule in props.PROPS[prop]["rules"]:
        try:
            rule(ctx)
        except ShapeNotRecognised as e:
            ctx.undecided(getattr(rule, "__name__", "rule"), "%s#shape" % getattr(rule, "__name__", "rule"), None, 0, str(e))
        except AnalysisError as e:
            errs.append(str(e))
    if errs and not any(not i.ok for i in ctx.instances):
        raise AnalysisError("; ".join(errs))
    if not errs:
        ctx.verify_floors()
    return sorted({(i.rule, i.site) for i in ctx.instances if not i.ok}), len(ctx.instances)


def apply_variant(variant, src_root, dst_root):
    """copy lasio package and apply edits; returns None or reason for skipping"""
    shutil.copytree(os.path.join(src_root, "lasio"), os.path.join(dst_root, "lasio"),
                    ignore=shutil.ignore_patterns("__pycache__", "*.pyc"))
    if variant.get("patch"):
        import subprocess
        if shutil.which("patch") is None:
            return "patch(1) not available"
        rc = subprocess.run(["patch", "-p1", "-s", "--no-backup-if-mismatch", "-i", variant["patch"]], cwd=dst_root,
                            stdout=subprocess.PIPE, stderr=subprocess.STDOUT)
        if rc.returncode != 0:
            return "patch does not apply to the tree under test"
        for dp, dn, fn in os.walk(os.path.join(dst_root, "lasio")):
            for f in fn:
                if f.endswith(".py"):
                    path = os.path.join(dp, f)
                    try:
                        compile(open(path, encoding="utf-8").read(), path, "exec")
                    except SyntaxError as e:
                        return "patched file does not compile: %s" % e
        return None
    for (relfile, old, new) in variant["edits"]:
        path = os.path.join(dst_root, relfile)
        if not os.path.exists(path):
            return "file %s missing" % relfile
        with open(path, encoding="utf-8") as f:
            s = f.read()
        if s.count(old) != 1:
            return "anchor text occurs %d times in %s" % (s.count(old), relfile)
        s = s.replace(old, new)
        try:
            compile(s, path, "exec")
        except SyntaxError as e:
            return "edited file does not compile: %s" % e
        with open(path, "w", encoding="utf-8") as f:
            f.write(s)
    return None


def seeded_variants(prop):
    """the confirmed seeded changes kept under /verif/seeded (written independently of the checkers)"""
    import glob
    import json
    out = []
    for meta in sorted(glob.glob(os.path.join(HERE, "seeded", "*", "meta.json"))):
        try:
            m = json.load(open(meta))
        except Exception:
            continue
        if m.get("property") != prop:
            continue
        if m.get("expected") == "not-detectable":
            continue
        d = os.path.dirname(meta)
        out.append({"id": "seeded:" + os.path.basename(d), "props": [prop], "rule": None, "kind": "breaking",
                    "edits": [], "also": (), "patch": os.path.join(d, "patch.diff")})
    return out


def benign_variants():
    """behaviour-preserving refactorings kept under /verif/benign: every check must stay silent on each of them"""
    import glob
    out = []
    for patch in sorted(glob.glob(os.path.join(HERE, "benign", "*", "patch.diff"))):
        d = os.path.dirname(patch)
        out.append({"id": "benign:" + os.path.basename(d), "props": [], "rule": None, "kind": "benign", "edits": [], "also": (),
                    "patch": patch})
    return out


def run_one(args):
    variant, prop, root, baseline = args
    t0 = time.time()
    tmp = tempfile.mkdtemp(prefix="lasio_sa_variant_")
    try:
        skip = apply_variant(variant, root, tmp)
        if skip:
            return {"id": variant["id"], "prop": prop, "status": "skipped", "why": skip}
        from sa import AnalysisError
        try:
            bad, n = _bad_keys(prop, tmp)
        except AnalysisError as e:
            return {"id": variant["id"], "prop": prop, "kind": variant["kind"],
                    "status": "analysis-error", "why": str(e)[:300]}
        new = [b for b in bad if tuple(b) not in {tuple(x) for x in baseline}]
        if variant["kind"] == "breaking":
            want = variant.get("rule")
            hit = [b for b in new if want is None or b[0] == want or b[0] in variant.get("also", ())]
            status = "killed" if hit else "MISSED"
        else:
            status = "silent" if not new else "FALSE-ALARM"
        return {"id": variant["id"], "prop": prop, "kind": variant["kind"], "status": status,
                "fired": [list(b) for b in new][:6], "wall_s": round(time.time() - t0, 2)}
    finally:
        shutil.rmtree(tmp, ignore_errors=True)


def run_for_property(prop, root, jobs=16, verbose=False):
    from selftest.variants import VARIANTS
    mine = [v for v in VARIANTS if prop in v["props"]]
    mine += seeded_variants(prop)
    mine += benign_variants()
    if not mine:
        return {"variants": 0}
    baseline, _ = _bad_keys(prop, root)
    work = [(v, prop, root, baseline) for v in mine]
    if len(work) > 1 and jobs > 1:
        with Pool(min(jobs, len(work))) as pool:
            res = pool.map(run_one, work)
    else:
        res = [run_one(w) for w in work]
    out = {
        "variants": len(res),
        "breaking_total": sum(1 for r in res if r.get("kind") == "breaking"),
        "breaking_killed": sum(1 for r in res if r["status"] == "killed"),
        "benign_total": sum(1 for r in res if r.get("kind") == "benign"),
        "benign_silent": sum(1 for r in res if r["status"] == "silent"),
        "skipped": [r["id"] + ": " + r["why"] for r in res if r["status"] == "skipped"],
        "problems": [r for r in res if r["status"] in ("MISSED", "FALSE-ALARM", "analysis-error")],
        "results": {r["id"]: r["status"] for r in res},
    }
    for r in res:
        if r["status"] in ("MISSED", "FALSE-ALARM", "analysis-error") or verbose:
            print("SELFTEST %s %s %s %s" % (prop, r["id"], r["status"], r.get("fired") or r.get("why") or ""))
    print("selftest %s: %d/%d breaking variants killed, %d/%d benign twins silent, %d skipped" % (
        prop, out["breaking_killed"], out["breaking_total"], out["benign_silent"], out["benign_total"],
        len(out["skipped"])))
    return out


if __name__ == "__main__":
    import props as _props
    root = os.environ.get("LASIO_SRC", "/repo")
    todo = sys.argv[1:] or sorted(_props.PROPS)
    for pid in todo:
        run_for_property(pid, root, verbose=True)
