"""Witness inputs for the defects D1..D21 of DESIGN.md section 2.

NOT a check and not referenced by MANIFEST.json: this script runs lasio and exists only to show, as the
brief requires for a genuine defect, the concrete failing input behind each static finding (all fail on
the pinned tree; all but D10 pass with notes/candidate_fixes.diff applied). Run with
PYTHONPATH=<tree> /venv/bin/python notes/witnesses.py
"""
import sys, io, json, pickle, copy, logging, builtins, os, tempfile
import numpy as np
import lasio
from lasio import HeaderItem, SectionItems
logging.disable(logging.CRITICAL)
print("lasio from", lasio.__file__)
R = {}
def rd(t, **k): return lasio.read(t, **k)
head = "~Version\n VERS. 2.0 : v\n WRAP. NO : w\n~Well\n STRT.M 1.0 : s\n STOP.M 3.0 : s\n STEP.M 1.0 : s\n NULL. -999.25 : n\n~Curves\n DEPT.M : d\n A.X : a\n B.X : b\n"
def chk(name, f):
    try: R[name] = bool(f())
    except Exception as e: R[name] = "EXC %s: %s" % (type(e).__name__, str(e)[:70])

# D1
def d1():
    opened=[]; _o=builtins.open
    def myopen(*a,**k):
        f=_o(*a,**k); opened.append(f); return f
    builtins.open=myopen
    try:
        l=lasio.LASFile(); l.append_curve("D",[1.,2.])
        p=os.path.join(tempfile.gettempdir(),"w_leak.las")
        try: l.write(p, version=5)
        except AssertionError: pass
        try: l.to_csv(p, delimiter="toolong")
        except TypeError: pass
        os.remove(p)
    finally: builtins.open=_o
    return len(opened)==2 and all(f.closed for f in opened)
chk("D1 handles closed", d1)
# D2
t = head + "~ASCII\n 1 10 100\n 2 20 200\n 3 30 300\n~Params\n P1. 5 : p\n"
chk("D2 inner ~A numpy==normal 3 rows", lambda: rd(t,engine="numpy").data.shape==(3,3)==rd(t,engine="normal").data.shape)
# D3
for tail,nm in (("\n","blank"),("# c\n","comment")):
    tt = head + "~ASCII\n 1 10 100\n 2 20 200\n 3 30 300\n"+tail+"~Params\n P1. 5 : p\n"
    chk("D3 inner ~A ending in %s"%nm, lambda tt=tt: rd(tt,engine="normal").data.shape==(3,3) and rd(tt,engine="numpy").data.shape==(3,3) and rd(tt).params.keys()==["P1"])
# D4
tt = head + "~ASCII\n 1 2 3\n\n"
chk("D4 single row + blank", lambda: rd(tt,engine="numpy").data.shape==(1,3)==rd(tt,engine="normal").data.shape)
h1 = head.replace(" A.X : a\n B.X : b\n","")
chk("D4 single column", lambda: rd(h1+"~ASCII\n 1\n 2\n 3\n",engine="numpy").data.shape==(3,1))
chk("D4 single cell", lambda: rd(h1+"~ASCII\n 1\n",engine="numpy").data.shape==(1,1))
# D5
tl = head.replace("~Version","~version").replace("~Well","~well").replace("~Curves","~curves") + "~other\n hello\n~ascii\n 1 10 100\n"
chk("D5 lower-case titles", lambda: (lambda l: l.keys()==["DEPT","A","B"] and l.data.shape==(1,3) and l.other=="hello" and set(l.sections)=={"Version","Well","Curves","Parameter","Other"})(rd(tl)))
# D6
data = "~ASCII\n 1 10 -999.25\n 2 20 200\n 3 30 300\n"
chk("D6 NULL/WRAP in ~P ignored", lambda: np.isnan(rd(head+"~Params\n NULL. 20 : x\n WRAP. YES : x\n"+data).data).tolist()==[[False,False,True],[False,False,False],[False,False,False]])
t3 = "~V\n VERS. 2.0 : v\n WRAP. NO : w\n~P\n VERS. 1.2 : x\n~W\n STRT.M 1.0 : s\n STOP.M 3.0 : s\n STEP.M 1.0 : s\n NULL. -999.25 : n\n COMP. ACME : COMPANY\n~C\n DEPT.M : d\n~A\n 1\n 2\n"
chk("D6 VERS in ~P ignored", lambda: rd(t3).well.COMP.value=="ACME")
# D7
def d7():
    l=lasio.LASFile()
    for i in range(14): l.append_curve("C%d"%i, np.arange(4)+i*100.0)
    s=io.StringIO(); l.write(s, wrap=True); m=rd(s.getvalue())
    return m.data.shape==(4,14) and np.allclose(m.data,l.data)
chk("D7 wrapped 14 curves", d7)
# D8
def d8():
    l=lasio.LASFile(); l.append_curve("D",[1.,2.]); l.append_curve("A",[123456.789,2.])
    s=io.StringIO(); l.write(s, wrap=True, data_width=8); m=rd(s.getvalue())
    return np.allclose(m.data,l.data)
chk("D8 narrow data_width", d8)
# D9
tc = head.replace(" WRAP. NO : w"," WRAP. NO : w\n DLM. COMMA : d")
chk("D9 unpadded COMMA", lambda: rd(tc+"~ASCII\n1,10,100\n2,20,200\n").data.tolist()==[[1,10,100],[2,20,200]])
chk("D10 padded COMMA text (recorded, not repaired)", lambda: rd(tc+"~ASCII\n1 , abc , 3\n2 , def , 4\n").curves[1].data.tolist()==["abc","def"])
# D11
chk("D11 indented ~Other", lambda: rd(head+"  ~Other\n line one\n line two\n~ASCII\n 1 2 3\n").other=="line one\nline two")
# D12
from lasio.reader import SectionParser
p=SectionParser("~P",version=2.0)
chk("D12 literals only", lambda: all(isinstance(p.num(x),str) for x in ["15_9","1_0.5","١٢٣","0x10","inf","nan","1,234,567","","  ","1e400","12-34","1 2"]) and [p.num(x) for x in ["12","-0","+5","1e5","1,5","5.",".5","-999.2500","99999999999999999999"]]==[12,0,5,1e5,1.5,5.0,0.5,-999.25,1e20] and isinstance(p.num("12"),np.integer) and isinstance(p.num("1e5"),np.floating))
# D13
def d13():
    l=lasio.LASFile(); l.well["XL"]=HeaderItem("XL","LONGUNITNAME","","d"); l.append_curve("DEPT",[1,2,3],unit="M")
    s=io.StringIO(); l.write(s); m=rd(s.getvalue()); return m.well.XL.unit=="LONGUNITNAME" and m.well.XL.value==0
chk("D13 widest unit + empty value", d13)
# D14
def d14():
    l=lasio.LASFile(); l.well.append(HeaderItem("NULL","M",123456789.123456789,"x")); l.append_curve("DEPT",[1,2,3],unit="M")
    s=io.StringIO(); l.write(s, version=1.2); m=rd(s.getvalue()); it=m.well["NULL:2"]; return it.unit=="M" and it.value==123456789.12345679
chk("D14 dup NULL in 1.2 ~W", d14)
# D15
def d15():
    s=SectionItems(); s.append(HeaderItem("A")); s.append(HeaderItem("B")); s["B"]=HeaderItem("A"); return s.keys()==["A:1","A:2"]
chk("D15 set_item renumbers", d15)
# D16
def d16():
    l=lasio.LASFile(); l.append_curve("D",[1.,2.]); l.append_curve("A",[3.,4.]); l.append_curve("A",[5.,6.])
    ok=True
    for f in [copy.deepcopy]+[lambda o,pr=pr: pickle.loads(pickle.dumps(o,protocol=pr)) for pr in range(0,6)]:
        m=f(l); a=io.StringIO(); b=io.StringIO(); l.write(a); m.write(b)
        ok = ok and m.keys()==["D","A:1","A:2"] and [c.original_mnemonic for c in m.curves]==["D","A","A"] and a.getvalue()==b.getvalue()
        it=f(l.curves[1]); ok = ok and it.mnemonic=="A:1" and it.original_mnemonic=="A"
        sc=f(l.curves); ok = ok and sc.keys()==["D","A:1","A:2"]
    return ok
chk("D16 pickle/deepcopy originals", d16)
# D17
def d17():
    l=lasio.LASFile(); l.append_curve("D",[1.,2.]); l.append_curve("A",[3.,4.])
    l.set_data(np.arange(6.).reshape(2,3), truncate=True); return l.data.tolist()==[[0,1],[3,4]] and l.keys()==["D","A"]
chk("D17 truncate", d17)
# D18-20
def strict(j): return json.loads(j, parse_constant=lambda c: (_ for _ in ()).throw(ValueError(c)))
chk("D19 default LASFile strict JSON", lambda: strict(lasio.LASFile().to_json())["metadata"]["Well"]["STRT"] is None)
chk("D18 integer header value", lambda: strict(rd(head+"~Params\n RUN. 5 : r\n"+data).to_json())["metadata"]["Parameter"]["RUN"]==5)
ttxt = head + "~ASCII\n 1 abc 100\n 2 def 200\n"
chk("D20 text curve json", lambda: strict(rd(ttxt).to_json())["data"]["A"]==["abc","def"])
def d20x():
    p=os.path.join(tempfile.gettempdir(),"w_x.xlsx"); rd(ttxt).to_excel(p); os.remove(p); return True
chk("D20 text curve excel", d20x)
# D21
h2 = head.replace(" B.X : b\n","")
chk("D21 blank line in data, c>d", lambda: rd(h2+"~A\n 1 10 100\n\n 2 20 200\n",engine="normal").data.tolist()==[[1,10,100],[2,20,200]])
w=max(len(k) for k in R)
for k,v in R.items(): print(k.ljust(w), "OK" if v is True else ("STILL-FAILS" if v is False else v))
