# -*- coding: utf-8 -*-
"""C18 / m1: index units that conflict must leave index_unit (and so depth_m /
depth_ft) undefined, however the conflicting units are spelled.

Every file below carries one metre spelling and one foot spelling among
STRT/STOP/STEP and the first curve.  The property says the unit is recognised
case-insensitively and is left undefined on conflict, so index_unit must be
None and depth_m / depth_ft must raise LASUnknownUnitError for all of them -
in particular when one unit is written exactly as in defaults.DEPTH_UNITS
("M", "FT") and the other one only matches case-insensitively ("ft", "m",
"Feet", "metres").
"""
import itertools
import logging
import sys

import lasio
from lasio.exceptions import LASUnknownUnitError

logging.getLogger("lasio").setLevel(logging.ERROR)

TEMPLATE = u"""~VERSION INFORMATION
 VERS.   2.0 :
 WRAP.   NO  :
~WELL INFORMATION
 STRT.{strt}    100.0 :
 STOP.{stop}    102.0 :
 STEP.{step}      1.0 :
 NULL.      -999.25 :
~CURVE INFORMATION
 DEPT.{curve}  : depth
 GR  .GAPI     : gamma
~ASCII
 100.0  1.0
 101.0  2.0
 102.0  3.0
"""

METRE = [u"M", u"m", u"metres", u"Meter"]
FOOT = [u"FT", u"ft", u"Feet", u"f"]

failures = []
checked = 0
for metre, foot in itertools.product(METRE, FOOT):
    layouts = [
        dict(strt=metre, stop=metre, step=metre, curve=foot),
        dict(strt=foot, stop=foot, step=foot, curve=metre),
        dict(strt=metre, stop=foot, step=u"", curve=u""),
        dict(strt=u"", stop=u"", step=foot, curve=metre),
    ]
    for layout in layouts:
        las = lasio.read(TEMPLATE.format(**layout))
        checked += 1
        problems = []
        if las.index_unit is not None:
            problems.append("index_unit == %r" % (las.index_unit,))
        for name in ("depth_m", "depth_ft"):
            try:
                values = getattr(las, name)
            except LASUnknownUnitError:
                pass
            else:
                problems.append("%s == %s" % (name, list(values)))
        if problems:
            failures.append((layout, problems))

# Sanity: agreeing units in mixed spellings are still recognised and consistent.
for spellings, expected in ((METRE, "M"), (FOOT, "FT")):
    for a, b in itertools.product(spellings, repeat=2):
        las = lasio.read(TEMPLATE.format(strt=a, stop=a, step=u"", curve=b))
        checked += 1
        if las.index_unit != expected:
            failures.append((dict(strt=a, curve=b), ["index_unit == %r" % (las.index_unit,)]))
        elif not all(abs(m - f * 0.3048) < 1e-9 for m, f in zip(las.depth_m, las.depth_ft)):
            failures.append((dict(strt=a, curve=b), ["depth_m != depth_ft * 0.3048"]))

if failures:
    print("FAIL: %d of %d files" % (len(failures), checked))
    for layout, problems in failures[:8]:
        print("  units %s -> %s" % (layout, "; ".join(problems)))
    sys.exit(1)
print("PASS (%d files)" % checked)
sys.exit(0)
