"""C04 demo: inside ~Parameter the colons of a clock time HH:MM[:SS] are part
of the value, the colon set off by blanks separates value and description
(which may contain colons itself) - for every hour, minute and second."""
import sys

import lasio
from lasio.reader import read_header_line

failures = []


def check(line, expected, section="Parameter"):
    got = read_header_line(line, section_name=section)
    got = (got["name"], got["unit"], got["value"], got["descr"])
    if got != expected:
        failures.append((line, expected, got))


pads = [" ", "   ", "\t", " \t "]
n = 0
for hour in range(24):
    for minute in (0, 7, 15, 32, 44, 59):
        for second in (None, 0, 9, 12, 32, 47, 58):
            for date in ("", " 23-JAN-2001", "2012-09-16T"):
                clock = "%02d:%02d" % (hour, minute)
                if second is not None:
                    clock += ":%02d" % second
                value = date + clock if date.endswith("T") else clock + date
                for descr in ("Time Logger At Bottom", "Time Logger: At Bottom", ""):
                    p = pads[n % len(pads)]
                    q = pads[(n // 3) % len(pads)]
                    n += 1
                    line = "TIML" + p + ".hh:mm" + q + value + " : " + descr
                    check(line, ("TIML", "hh:mm", value, descr))
                    line = "TLAB." + q + value + p + " : " + descr
                    check(line, ("TLAB", "", value, descr))

# The same through lasio.read().
text = """~Version
 VERS.   2.0 : CWLS LOG ASCII STANDARD - VERSION 2.0
 WRAP.    NO : ONE LINE PER DEPTH STEP
~Well
 STRT.M  1.0 : START
 STOP.M  2.0 : STOP
 STEP.M  1.0 : STEP
 NULL. -999.25 : NULL
~Curves
 DEPT.M      : depth
~Parameter
 TCS .hh:mm  21:30 23-JAN-2001 : Time Circ. Stopped
 TLAB.       14:00:32 : Time Logger: At Bottom
 TSTA.       2012-09-16T07:44:58 : Time Logging: Started
~ASCII
 1.0
 2.0
"""
las = lasio.read(text)
for mnemonic, unit, value, descr in [
    ("TCS", "hh:mm", "21:30 23-JAN-2001", "Time Circ. Stopped"),
    ("TLAB", "", "14:00:32", "Time Logger: At Bottom"),
    ("TSTA", "", "2012-09-16T07:44:58", "Time Logging: Started"),
]:
    item = las.params[mnemonic]
    got = (item.mnemonic, item.unit, item.value, item.descr)
    if got != (mnemonic, unit, value, descr):
        failures.append(("lasio.read: " + mnemonic, (mnemonic, unit, value, descr), got))

if failures:
    print("FAIL: %d header lines parsed wrongly, e.g." % len(failures))
    for line, expected, got in failures[:5]:
        print("  %r\n     expected %r\n     got      %r" % (line, expected, got))
    sys.exit(1)
print("PASS")
