"""C17 demo 2: every pickle protocol (0..5) and copy.deepcopy must reproduce
a LASFile, its sections and its items - duplicated and blank mnemonics included.
"""
import copy
import io
import pickle
import sys

import numpy as np
import lasio

LAS_TEXT = """~Version
 VERS.   2.0 : CWLS LOG ASCII STANDARD - VERSION 2.0
 WRAP.   NO  : ONE LINE PER DEPTH STEP
~Well
 STRT.M   100.0 : START
 STOP.M   101.0 : STOP
 STEP.M     0.5 : STEP
 NULL.  -999.25 : NULL
 WELL.   DEMO 1 : WELL
~Curve
 DEPT.M      : depth
 RHO .K/M3   : density
 RHO .K/M3   : density again
     .       : unnamed
 GR  .GAPI   : gamma
~Parameter
 BHT .DEGC 80.0 : bottom hole temperature
 BHT .DEGC 85.0 : second run
~ASCII
 100.0 2400.0 2410.0 1.0 55.0
 100.5 2405.0 2415.0 2.0 56.0
 101.0 2410.0 2420.0 3.0 57.0
"""

failures = []


def canon(las):
    out = [("index_unit", las.index_unit)]
    for name in ("Version", "Well", "Curves", "Parameter"):
        sec = las.sections[name]
        out.append((name, type(sec).__name__, sec.mnemonic_transforms))
        for item in sec:
            out.append((name, type(item).__name__, item.mnemonic,
                        item.original_mnemonic, item.unit, repr(item.value), item.descr))
    for c in las.curves:
        out.append((c.mnemonic, str(c.data.dtype), c.data.tolist()))
    return out


def text(las):
    buf = io.StringIO()
    las.write(buf)
    return buf.getvalue()


def attempt(label, func):
    try:
        return func()
    except BaseException as exc:  # RecursionError, AttributeError, ...
        failures.append("%s: raised %s: %s" % (label, type(exc).__name__, str(exc)[:80]))
        return None


las = lasio.read(LAS_TEXT)
assert las.curves.keys() == ["DEPT", "RHO:1", "RHO:2", "UNKNOWN", "GR"]
reference = canon(las)
reference_text = text(lasio.read(LAS_TEXT))

copies = [("deepcopy", lambda: copy.deepcopy(las))]
for proto in range(0, pickle.HIGHEST_PROTOCOL + 1):
    copies.append(("pickle protocol %d" % proto,
                   lambda p=proto: pickle.loads(pickle.dumps(las, protocol=p))))

for label, func in copies:
    dup = attempt(label + " of LASFile", func)
    if dup is None:
        continue
    if canon(dup) != reference:
        failures.append("%s of LASFile: content differs" % label)
    elif text(dup) != reference_text:
        failures.append("%s of LASFile: write() differs" % label)

# sections and single items on their own
for proto in range(0, pickle.HIGHEST_PROTOCOL + 1):
    sec = attempt("pickle protocol %d of ~Curves" % proto,
                  lambda: pickle.loads(pickle.dumps(las.curves, protocol=proto)))
    if sec is not None and (sec.keys() != las.curves.keys()
                            or sec.mnemonic_transforms != las.curves.mnemonic_transforms):
        failures.append("pickle protocol %d of ~Curves: differs" % proto)
    item = attempt("pickle protocol %d of item" % proto,
                   lambda: pickle.loads(pickle.dumps(las.curves[2], protocol=proto)))
    if item is not None and (item.mnemonic, item.original_mnemonic) != ("RHO:2", "RHO"):
        failures.append("pickle protocol %d of item: differs" % proto)

if failures:
    print("FAIL")
    for f in failures:
        print("  " + f)
    sys.exit(1)
print("PASS")
