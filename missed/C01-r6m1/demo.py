"""C01 demo: every finite sample must be recovered to within half a unit of
the last digit printed by the format chosen for ITS column (fmt, or the
column_fmt entry for that column) - for every column, the index included.
"""
import io
import logging
import sys

import numpy as np
import lasio

logging.disable(logging.CRITICAL)


def build():
    las = lasio.LASFile()
    n = 8
    depth = 1500.0 + 0.1524 * np.arange(n)  # 0.1524 m = 6 inch sampling
    rng = np.random.RandomState(7)
    las.append_curve("DEPT", depth, unit="m")
    las.append_curve("GR", 50 + 30 * rng.rand(n), unit="gAPI")
    rhob = 2.2 + 0.4 * rng.rand(n)
    rhob[3] = np.nan
    las.append_curve("RHOB", rhob, unit="g/cm3")
    las.append_curve("DT", 200 + 100 * rng.rand(n), unit="us/m")
    return las


def decimals(fmt_string):
    # '%.3f' -> 3
    return int(fmt_string.split(".")[1].rstrip("f"))


cases = [
    dict(fmt="%.5f"),
    dict(fmt="%.2f", column_fmt={2: "%.4f"}),
    dict(fmt="%.2f", column_fmt={0: "%.4f"}),  # docstring example: finer index
    dict(fmt="%.1f", column_fmt={0: "%.4f", 2: "%.3f"}, wrap=True, data_width=30),
    dict(fmt="%.3f", column_fmt={0: "%.4f", 3: "%.1f"}, len_numeric_field=-1, lhs_spacer=""),
    dict(fmt="%.1f", column_fmt={0: "%.5f"}, version=1.2, mnemonics_header=True),
]

failures = []
for options in cases:
    for engine in ("numpy", "normal"):
        las = build()
        buf = io.StringIO()
        las.write(buf, **options)
        back = lasio.read(buf.getvalue(), engine=engine)
        label = "%r engine=%s" % (options, engine)
        if back.keys() != las.keys():
            failures.append(label + ": mnemonics %r" % (back.keys(),))
            continue
        for j, (orig, got) in enumerate(zip(las.curves, back.curves)):
            chosen = options.get("column_fmt", {}).get(j, options["fmt"])
            tol = 0.5 * 10.0 ** (-decimals(chosen)) * (1 + 1e-9)
            if len(got.data) != len(orig.data):
                failures.append(label + ": %s has %d rows" % (orig.mnemonic, len(got.data)))
                continue
            finite = ~np.isnan(orig.data)
            if not np.array_equal(np.isnan(got.data), ~finite):
                failures.append(label + ": %s NaN pattern differs" % orig.mnemonic)
                continue
            err = np.max(np.abs(orig.data[finite] - got.data[finite]))
            if err > tol:
                failures.append(
                    label + ": column %d (%s) written with %s, max error %.2e > %.2e"
                    % (j, orig.mnemonic, chosen, err, tol)
                )

if failures:
    print("FAIL")
    for f in failures[:10]:
        print("  " + f)
    sys.exit(1)
print("PASS")
