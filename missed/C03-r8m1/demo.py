"""C03: header metadata must survive write -> read in every section, for both
LAS versions.

A ~Well section with LAS-conformant items (plain mnemonics, no units, values
and descriptions without ':') is written as version 1.2 and 2.0 and read back.
Every item must come back with the same mnemonic, unit, value (numbers compared
numerically - a number must come back as a number) and description (the same
text).
"""
import io
import logging
import numbers
import sys

import numpy as np

import lasio
from lasio import HeaderItem

logging.disable(logging.CRITICAL)


def build():
    las = lasio.LASFile()
    # Non-reserved ~Well items: LAS 1.2 writes them as 'MNEM.UNIT  descr : value'.
    las.well["COMP"] = HeaderItem("COMP", "", "ANY OIL COMPANY", "COMPANY")
    las.well["RUN"] = HeaderItem("RUN", "", 3, "Run number")
    las.well["ELEV"] = HeaderItem("ELEV", "", 1234.5, "Kelly bushing elevation")
    las.well["LIC"] = HeaderItem("LIC", "", "A-77", "1970")
    las.well["BLK"] = HeaderItem("BLK", "", "North", "07")
    las.params["BHT"] = HeaderItem("BHT", "DEGC", 35.5, "Bottom hole temperature")
    las.append_curve("DEPT", np.array([100.0, 100.5, 101.0]), unit="M", descr="Depth")
    las.append_curve("GR", np.array([1.0, 2.0, 3.0]), unit="GAPI", descr="Gamma")
    return las


def same_value(a, b):
    a_num = isinstance(a, numbers.Number)
    b_num = isinstance(b, numbers.Number)
    if a_num != b_num:
        return False
    if a_num:
        return float(a) == float(b)
    return a == b


def main():
    problems = []
    refreshed = ("STRT", "STOP", "STEP")
    for version in (1.2, 2.0):
        for case in ("preserve", "upper", "lower"):
            las = build()
            buf = io.StringIO()
            las.write(buf, version=version)
            back = lasio.read(buf.getvalue(), mnemonic_case=case)
            fn = {"preserve": str, "upper": str.upper, "lower": str.lower}[case]
            for section in ("Well", "Parameter"):
                orig = [i for i in las.sections[section]]
                new = [i for i in back.sections[section]]
                if [fn(i.original_mnemonic) for i in orig] != [
                    i.original_mnemonic for i in new
                ]:
                    problems.append((version, case, section, "mnemonics/order differ"))
                    continue
                for o, n in zip(orig, new):
                    if o.original_mnemonic in refreshed:
                        continue
                    if o.unit != n.unit:
                        problems.append((version, case, o.original_mnemonic, "unit", o.unit, n.unit))
                    if not same_value(o.value, n.value):
                        problems.append((version, case, o.original_mnemonic, "value", o.value, n.value))
                    if o.descr != n.descr:
                        problems.append((version, case, o.original_mnemonic, "descr", o.descr, n.descr))
    if problems:
        for p in problems:
            print("  mismatch:", p)
        print("FAIL")
        return 1
    print("PASS")
    return 0


if __name__ == "__main__":
    sys.exit(main())
