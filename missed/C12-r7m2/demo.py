"""C12 demo 2: spacers and field widths are presentation only.

The same LASFile is written twice with the same numeric format ('%.8f') and
the automatically chosen field width: once with the default one-space
spacers and once as a plain fixed-width table (lhs_spacer='' and spacer='',
the columns are then separated only by the padding of the right-justified
fields).  Both outputs are read back and compared.
"""
import io
import sys

import numpy as np

import lasio

FMT = "%.8f"

CONFIGS = [
    dict(version=2, fmt=FMT),
    dict(version=2, fmt=FMT, lhs_spacer="", spacer=""),
    dict(version=1.2, fmt=FMT, lhs_spacer="", spacer=""),
    dict(version=2, fmt=FMT, lhs_spacer="", spacer="", wrap=True, data_width=40),
]


def build():
    las = lasio.LASFile()
    las.append_curve("DEPT", np.array([1.0, 1.5, 2.0, 2.5]), unit="m", descr="depth")
    las.append_curve("PHI", np.array([0.12345678, 0.2, 0.30000001, 0.25]), unit="v/v", descr="porosity")
    las.append_curve("SW", np.array([0.5, 0.625, np.nan, 0.75]), unit="v/v", descr="saturation")
    las.append_curve("RT", np.array([9.5, 8.25, 7.125, 6.0625]), unit="ohmm", descr="resistivity")
    las.well["COMP"].value = "ACME"
    return las


def content(las):
    head = []
    for name in ("Version", "Well", "Curves", "Parameter"):
        for item in las.sections[name]:
            if name == "Version" and item.mnemonic in ("VERS", "WRAP"):
                continue
            head.append((name, item.mnemonic, str(item.unit), str(item.value), str(item.descr)))
    return head, [np.asarray(c.data) for c in las.curves]


def same_data(d0, d1):
    if len(d0) != len(d1):
        return False
    for a, b in zip(d0, d1):
        if a.shape != b.shape or a.dtype.kind != b.dtype.kind:
            return False
        if a.dtype.kind == "f":
            if not np.array_equal(a, b, equal_nan=True):
                return False
        elif not np.array_equal(a, b):
            return False
    return True


def main():
    problems = []
    results = []
    for cfg in CONFIGS:
        buf = io.StringIO()
        build().write(buf, **cfg)
        text = buf.getvalue()
        try:
            results.append((cfg, text, content(lasio.read(io.StringIO(text)))))
        except Exception as exc:
            problems.append("output of %s cannot be read back: %s: %s" % (cfg, type(exc).__name__, exc))
    if results:
        cfg0, text0, (head0, data0) = results[0]
        expected = [c.data for c in build().curves]
        if not same_data(data0, expected):
            problems.append("reference configuration %s does not give back the data" % (cfg0,))
        for cfg, text, (head, data) in results[1:]:
            if head != head0:
                problems.append("header items differ between %s and %s" % (cfg0, cfg))
            if not same_data(data0, data):
                first = text.split("~A", 1)[1].splitlines()[1]
                problems.append(
                    "curve data differ between %s and %s (first data line: %r)" % (cfg0, cfg, first)
                )
    if problems:
        print("FAIL")
        for p in problems:
            print("  " + p)
        return 1
    print("PASS")
    return 0


if __name__ == "__main__":
    sys.exit(main())
