"""C04 demo 1: a purely numeric unit with padding behind it.

`MNEM .UNIT  VALUE : DESCRIPTION` must parse to exactly (MNEM, UNIT, VALUE,
DESCRIPTION) with the surrounding blanks/tabs stripped from every field, for
any padding, in every section kind.  Here the unit is made of digits only
("1000", "10", "3") and the padding after it is varied.
"""
import sys

from lasio.reader import read_header_line

SECTIONS = [None, "Version", "Well", "Curves", "Parameter", "~My_Section"]
AFTER_UNIT = [" ", "  ", "      ", "\t", " \t ", "\t\t"]
CASES = [
    # (mnemonic, unit, value, description)
    ("HKLA", "1000", "", "(RT)"),
    ("HKLA", "1000", "", ""),
    ("GAIN", "10", "ABC", "amplifier gain"),
    ("RUN", "3", "", "run number"),
    ("BS", "216", "N/A", ""),
    ("HKLA", "1000 lbf", "", "(RT)"),   # documented `digits + blank` form
    ("DEPT", "M", "1670.0", "depth"),   # ordinary control
]

failures = []
n = 0
for section in SECTIONS:
    for mnem, unit, value, descr in CASES:
        for pad in AFTER_UNIT:
            if value and pad in (" ", "\t") and unit.isdigit():
                # `digits + single blank + text` is the documented
                # "1000 lbf" form: the text belongs to the unit there.
                continue
            line = "%s .%s%s%s : %s" % (mnem, unit, pad, value, descr)
            n += 1
            got = read_header_line(line, section_name=section)
            want = {"name": mnem, "unit": unit, "value": value, "descr": descr}
            if got != want:
                failures.append((section, line, got, want))

if failures:
    print("FAIL: %d of %d header lines parsed wrongly" % (len(failures), n))
    for section, line, got, want in failures[:8]:
        print("  section=%r line=%r\n     got  %r\n     want %r" % (section, line, got, want))
    sys.exit(1)
print("PASS (%d header lines)" % n)
