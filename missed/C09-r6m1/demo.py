"""C09 demo 1: comment / blank lines inserted at the top of the data section
must not change the parsed result.

The base file is an unwrapped COMMA delimited file (default options; such a
file is always read by the 'normal' engine because np.genfromtxt cannot split
it).  The transformed text only gets 25 noise lines ('#' comments and blank
lines) directly below the ~A line, i.e. more than the column sniffer samples.
"""
import sys
import numpy as np
import lasio
import logging

logging.disable(logging.CRITICAL)

HEADER = """~Version
VERS. 2.0 : CWLS LOG ASCII STANDARD - VERSION 2.0
WRAP.  NO : ONE LINE PER DEPTH STEP
DLM . {dlm} : DELIMITER
~Well
STRT.M 100.0 :
STOP.M 102.0 :
STEP.M   0.5 :
NULL. -999.25 :
~Curve
DEPT.M   : depth
GR  .GAPI: gamma
NPHI.V/V : neutron
~ASCII
"""
ROWS = [(100.0, 45.5, 0.31), (100.5, 46.25, 0.3), (101.0, -999.25, 0.29),
        (101.5, 47.0, 0.28), (102.0, 48.75, 0.27)]


def build(dlm, sep, noise):
    data = [sep.join("%g" % v for v in row) for row in ROWS]
    return HEADER.format(dlm=dlm) + "\n".join(noise + data) + "\n"


def snapshot(las):
    hdr = [(name, [(i.mnemonic, i.unit, str(i.value), i.descr) for i in sect])
           for name, sect in las.sections.items() if not isinstance(sect, str)]
    return hdr, [np.asarray(c.data, dtype=float) for c in las.curves]


def same(a, b):
    return a[0] == b[0] and len(a[1]) == len(b[1]) and all(
        x.shape == y.shape and np.array_equal(x, y, equal_nan=True)
        for x, y in zip(a[1], b[1]))


failures = []
cases = [("COMMA", ",", {}), ("SPACE", "  ", {"engine": "normal"}),
         ("SPACE", " ", {"null_policy": "none"}), ("SPACE", " ", {})]
for dlm, sep, kwargs in cases:
    for n_noise in (3, 20, 21, 25, 40):
        noise = ["# remark %d" % i if i % 3 else "" for i in range(n_noise)]
        base = snapshot(lasio.read(build(dlm, sep, []), **kwargs))
        try:
            other = snapshot(lasio.read(build(dlm, sep, noise), **kwargs))
        except Exception as exc:  # a readable file became unreadable
            failures.append((dlm, kwargs, n_noise, "raised %r" % (exc,)))
            continue
        if not same(base, other):
            failures.append((dlm, kwargs, n_noise,
                             [c.tolist() for c in other[1]]))

if failures:
    for f in failures:
        print("FAIL", f)
    sys.exit(1)
print("PASS")
