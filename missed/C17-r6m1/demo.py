"""C17 demo 1: header fields that are None must survive pickle / deepcopy.

A LASFile whose items carry None in unit / value / descr (set by the user, or
left behind by LASFile.update_start_stop_step() for a one-sample file) is
copied with every pickle protocol and with copy.deepcopy; the copy must show
the same unit, value and descr on every item and write() the same bytes.
"""
import copy
import io
import pickle
import sys

import numpy as np
import lasio
from lasio import CurveItem, HeaderItem

failures = []


def build():
    las = lasio.LASFile()
    las.append_curve("DEPT", np.array([100.0]), unit="m")
    las.append_curve("GR", np.array([55.5]), unit="gAPI", descr="gamma")
    # a curve added without a unit
    las.append_curve_item(CurveItem("RHOB", data=np.array([2.5])))
    las.curves["RHOB"].unit = None
    # a parameter whose value is not known (yet)
    las.params.append(HeaderItem("BHT", "degC", 0, "bottom hole temperature"))
    las.params["BHT"].value = None
    las.params.append(HeaderItem("MUD", "", "WBM", "mud type"))
    las.params["MUD"].descr = None
    # one sample only: STEP cannot be worked out and is left as None
    las.update_start_stop_step()
    assert las.well["STEP"].value is None
    return las


def canon(las):
    out = []
    for name in ("Version", "Well", "Curves", "Parameter"):
        for item in las.sections[name]:
            out.append(
                (name, item.mnemonic, item.original_mnemonic,
                 repr(item.unit), repr(item.value), repr(item.descr))
            )
    return out


def text(las):
    buf = io.StringIO()
    las.write(buf)
    return buf.getvalue()


def check(label, make_copy):
    las = build()
    dup = make_copy(las)
    a, b = canon(las), canon(dup)
    if a != b:
        diffs = [(x, y) for x, y in zip(a, b) if x != y]
        failures.append("%s: items differ, e.g. %r" % (label, diffs[:2]))
        return
    if text(build()) != text(dup):
        failures.append("%s: write() output differs" % label)


for proto in range(0, pickle.HIGHEST_PROTOCOL + 1):
    check("pickle protocol %d" % proto,
          lambda las, p=proto: pickle.loads(pickle.dumps(las, protocol=p)))
check("deepcopy(las)", copy.deepcopy)

# sections and single items on their own
las = build()
sec = copy.deepcopy(las.params)
if [repr(i.value) for i in sec] != [repr(i.value) for i in las.params]:
    failures.append("deepcopy(section): values differ")
item = pickle.loads(pickle.dumps(las.curves["RHOB"]))
if repr(item.unit) != repr(las.curves["RHOB"].unit):
    failures.append("pickle(item): unit %r became %r" % (las.curves["RHOB"].unit, item.unit))

if failures:
    print("FAIL")
    for f in failures:
        print("  " + f)
    sys.exit(1)
print("PASS")
