"""C12: writer options change presentation only, never content.

The same LASFile is written with two configurations that use the same numeric
formats (fmt and column_fmt are identical in both) and differ only in
presentation: the default layout versus a compact layout without a leading
spacer and without padding of the numeric fields (lhs_spacer="",
len_numeric_field=-1).  Both outputs must read back to the same header items
and the same curve data.
"""
import io
import sys

import numpy as np
import lasio


def build():
    las = lasio.LASFile()
    las.well["COMP"].value = "ACME"
    las.append_curve("DEPT", np.array([1000.0, 1000.5, 1001.0, 1001.5]), unit="M")
    las.append_curve("GR", np.array([55.1234, 60.5, np.nan, 71.25]), unit="GAPI")
    las.append_curve("RHOB", np.array([2.351, 2.402, 2.398, np.nan]), unit="G/C3")
    las.append_curve("NPHI", np.array([0.21, 0.19, 0.25, 0.3]), unit="V/V")
    return las


def roundtrip(**cfg):
    s = io.StringIO()
    build().write(s, **cfg)
    s.seek(0)
    return s.getvalue(), lasio.read(s)


def header(las, section):
    return [
        (i.mnemonic, i.unit, str(i.value), i.descr)
        for i in las.sections[section]
        if i.mnemonic not in ("VERS", "WRAP")
    ]


def same(a, b):
    if [c.mnemonic for c in a.curves] != [c.mnemonic for c in b.curves]:
        return "curve mnemonics differ: %s vs %s" % (a.keys(), b.keys())
    for sec in ("Version", "Well", "Curves", "Parameter"):
        if header(a, sec) != header(b, sec):
            return "header section %s differs" % sec
    da, db = a.data, b.data
    if da.shape != db.shape:
        return "data shape %s vs %s" % (da.shape, db.shape)
    if not np.allclose(da.astype(float), db.astype(float), equal_nan=True):
        return "data values differ"
    return None


def main():
    formats = dict(fmt="%.5f", column_fmt={2: "%.3f"})  # same in every config
    failures = []
    for version in (1.2, 2):
        for wrap in (False, True):
            ref_txt, ref = roundtrip(version=version, wrap=wrap, **formats)
            alt_txt = ""
            try:
                alt_txt, alt = roundtrip(
                    version=version, wrap=wrap, lhs_spacer="", len_numeric_field=-1,
                    **formats
                )
                why = same(ref, alt)
            except Exception as exc:  # unreadable output or non-numeric data
                why = "compact output not comparable: %r" % (exc,)
            if why:
                failures.append((version, wrap, why, alt_txt.split("~ASCII")[-1][:120]))
    if failures:
        for f in failures:
            print("version=%s wrap=%s: %s\n  compact data section starts: %r" % f)
        print("FAIL")
        return 1
    print("PASS")
    return 0


if __name__ == "__main__":
    sys.exit(main())
