"""C11 demo 2: lasio's own output must be a fixed point of read -> write.

A LAS 2.0 file whose ~Well section has an item with a unit (the kelly bushing
elevation, in metres) is saved as LAS 1.2 (``version=1.2``); a native LAS 1.2
file with the same item is saved with the default options.  The written text
W1 is read back (r2), written again with the same options (W2) and read once
more (r3): r3 must carry the same header items (no text migrating between
unit, value and description) and the same curve data as r2.
"""
import io
import logging
import sys

import numpy as np

import lasio

logging.disable(logging.CRITICAL)

X_20 = """~Version ---------------------------------------------------
VERS.   2.0 : CWLS log ASCII Standard -VERSION 2.0
WRAP.    NO : One line per depth step
~Well ------------------------------------------------------
STRT.M   1670.0 : START DEPTH
STOP.M  1669.75 : STOP DEPTH
STEP.M   -0.125 : STEP
NULL.   -999.25 : NULL VALUE
COMP.      ACME : COMPANY
WELL.    TEST 1 : WELL
EKB .M    123.4 : ELEVATION OF KELLY BUSHING
~Curve Information -----------------------------------------
DEPT.M     : 1  DEPTH
DT  .US/M  : 2  SONIC TRANSIT TIME
~Params ----------------------------------------------------
BHT .DEGC 35.5 : BOTTOM HOLE TEMPERATURE
~Other -----------------------------------------------------
~ASCII -----------------------------------------------------
 1670.000  123.45
 1669.875  123.46
 1669.750  123.47
"""

X_12 = """~VERSION INFORMATION
 VERS.                  1.2:   CWLS LOG ASCII STANDARD -VERSION 1.2
 WRAP.                  NO:   ONE LINE PER DEPTH STEP
~WELL INFORMATION BLOCK
#MNEM.UNIT       DATA TYPE    INFORMATION
#---------    -------------   ------------------------------
 STRT.M        1670.000000:
 STOP.M        1669.750000:
 STEP.M          -0.125000:
 NULL.           -999.2500:
 COMP.             COMPANY:   ACME
 WELL.                WELL:   TEST 1
 EKB .M   ELEVATION OF KELLY BUSHING:   123.4
~CURVE INFORMATION BLOCK
 DEPT.M                   :   DEPTH
 DT  .US/M                :   SONIC TRANSIT TIME
~A  DEPTH     DT
 1670.000  123.45
 1669.875  123.46
 1669.750  123.47
"""

CASES = [
    ("2.0 file, default options", X_20, {}),
    ("2.0 file, version=1.2", X_20, {"version": 1.2}),
    ("1.2 file, default options", X_12, {}),
    ("1.2 file, version=2", X_12, {"version": 2}),
]


def write(las, **kwargs):
    buf = io.StringIO()
    las.write(buf, **kwargs)
    return buf.getvalue()


def num(v):
    try:
        return float(v)
    except (TypeError, ValueError):
        return v


def canonical(las):
    header = {}
    for name in ("Version", "Well", "Curves", "Parameter"):
        header[name] = [
            (i.original_mnemonic, i.unit, num(i.value), i.descr)
            for i in las.sections[name]
        ]
    data = [np.asarray(c.data, dtype=float).tolist() for c in las.curves]
    return header, data


def main():
    failures = []
    for label, text, options in CASES:
        # NB: write() may update the LASFile it is given, so every re-read is
        # snapshotted before it is written again.
        w1 = write(lasio.read(text), **options)
        r2 = lasio.read(w1)
        c2 = canonical(r2)
        w2 = write(r2, **options)
        r3 = lasio.read(w2)
        c3 = canonical(r3)
        w3 = write(r3, **options)
        c4 = canonical(lasio.read(w3))

        if not (c2 == c3 == c4):
            failures.append(label)
            for sec in c2[0]:
                for a, b in zip(c2[0][sec], c3[0][sec]):
                    if a != b:
                        print("  %s, %s: first re-read %r -> second re-read %r"
                              % (label, sec, a, b))
    if failures:
        print("FAIL: lasio's own output is not a fixed point of read->write for", failures)
        return 1
    print("PASS")
    return 0


if __name__ == "__main__":
    sys.exit(main())
