"""C08 demo: integer literals that fit 64 bits must become integers.

Header values at the very edge of the int64 range are plain integer literals
that fit 64 bits, so they have to come back as integers that are numerically
equal to the literal (not as rounded floats).
"""
import sys

import numpy as np

import lasio

LAS = """~Version
VERS.   2.0 : CWLS LOG ASCII STANDARD - VERSION 2.0
WRAP.   NO  : ONE LINE PER DEPTH STEP
~Well
STRT.M  1.0 : START
STOP.M  2.0 : STOP
STEP.M  1.0 : STEP
NULL.   -999.25 : NULL
SEQ .   {well} : record sequence number
~Parameter
HASH.   {param} : checksum of source record
SMALL.  42 : ordinary integer
BIG .   9223372036854775808 : one past int64, must be a float
~Curves
DEPT.M : depth
GR  .GAPI : gamma
~ASCII
1.0 10.0
2.0 11.0
"""

CASES = [
    "9223372036854775807",    # int64 max
    "-9223372036854775808",   # int64 min
    "9223372036854775296",    # still fits, 512 below 2**63
    "+9223372036854775807",
    "9223372036854775295",    # control: a bit further from the edge
]

failures = []
for text in CASES:
    las = lasio.read(LAS.format(well=text, param=text))
    for where, value in (("~Well", las.well["SEQ"].value),
                         ("~Parameter", las.params["HASH"].value)):
        ok = isinstance(value, (int, np.integer)) and int(value) == int(text)
        if not ok:
            failures.append("%s %s -> %r (%s)" % (where, text, value, type(value).__name__))
    # sanity on the neighbours
    small = las.params["SMALL"].value
    big = las.params["BIG"].value
    assert isinstance(small, (int, np.integer)) and small == 42
    assert isinstance(big, float) and big == float(2 ** 63)

if failures:
    print("FAIL")
    for f in failures:
        print("  ", f)
    sys.exit(1)
print("PASS")
