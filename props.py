"""Property -> rules registry.  Each rule is a function(ctx) recording instances on ctx."""
from rules import io as r_io
from rules import hdr_tolerant as r_hdrt
from rules import wr_frame as r_wrf
from rules import si as r_si
from rules import hdr_num as r_num
from rules import sec as r_sec
from rules import data as r_data
from rules import hdr_grammar as r_gr
from rules import wr_layout as r_wl
from rules import lf_pu as r_lp
from rules import ex as r_ex

PROPS = {}


NOT_APPLICABLE = {}


def prop(pid, rules, explanation, assumptions, design_ref, technique, level_text, level_note=None):
    PROPS[pid] = {"rules": rules, "explanation": explanation, "assumptions": assumptions, "design_ref": design_ref,
                  "technique": technique, "level_text": level_text,
                  "level_note": level_note or "; ".join(assumptions)}


COMMON_ASSUMPTIONS = [
    "the engine's own CFG/exception model, reaching definitions and control dependence are correct (sa/)",
    "Python's documented semantics of try/finally/with, list and dict methods",
    "no monkey-patching, eval or dynamic attribute tricks beyond lasio's own __setattr__/__getattr__ hooks",
]

prop("C20",
     [r_io.rule_typestate, r_io.rule_caller_owned, r_io.rule_no_escape, r_io.rule_wrapper_ownership],
     "All-paths typestate analysis over per-function CFGs with exception edges (every statement that evaluates a "
     "call, subscript, attribute or arithmetic may raise; finally/with bodies duplicated per continuation): each "
     "file handle acquired by open/io.open/codecs.open, or returned by a lasio helper summarised as "
     "may-return-owned, is closed, released by `with`, or handed to the caller on every path to the normal and the "
     "exceptional exit (IO.TYPESTATE; boolean flags and hasattr(h,'close') guards resolved by explicit-state "
     "search); close() on a caller-supplied handle is unreachable in write()/to_csv()/writer.write() "
     "(IO.CALLER-OWNED); an owned handle is never stored in an attribute, global or container (IO.NO-ESCAPE). "
     "Decides the structural clause 'no path leaks / no caller handle closed', not behaviour under injected "
     "C-level I/O faults beyond 'every statement may raise'.",
     COMMON_ASSUMPTIONS + ["urlopen() responses are outside the property (paths only)"],
     "DESIGN.md section 4, C20",
     technique="all-paths typestate over a CFG with exception edges + may-return-owned call summaries",
     level_text="Static all-paths guarantee for the structural clause: on the analysed source no control-flow path "
                "(any statement may raise) leaves an opened handle unclosed, closes a caller-supplied handle or "
                "stores an owned handle; the behavioural whole (real I/O faults at the k-th operation) is implied "
                "only under the 'every statement may raise' abstraction.")

prop("C19",
     [r_hdrt.rule_catchall, r_hdrt.rule_total, r_hdrt.rule_steer_lookup, r_hdrt.rule_no_state, r_hdrt.rule_flag_forward,
      r_sec.rule_end_test, r_sec.rule_scan, r_sec.rule_line_model, r_hdrt.rule_parser_stateless, r_sec.rule_title_pred,
      r_hdrt.rule_generator_resume, r_hdrt.rule_mnemonic_tests, r_data.rule_sample_window],
     "Error-discipline analysis of the header loop (reader.parse_header_items_section): the call that parses a raw "
     "line is inside a try with a catch-all handler; by control dependence the handler raises only when "
     "ignore_header_errors is false, then raises LASHeaderError whose message derives (provenance) from the line, "
     "and never breaks/continues/returns; by CFG reachability the values parsed from an earlier line can never be "
     "used after a failed parse (HDR.CATCHALL). Totality: in the per-line code outside that try and in the closure of "
     "lasio functions it reaches (resolved call graph incl. __setattr__/property hooks), no partial operation on "
     "line-derived data (unguarded constant index, key/index from the line, number constructors, .index/.groupdict, "
     "asserts, division, regex built from the line) sits outside a catch-all try, and every constant key read from "
     "the parsed-line dict is a key of the dict literal read_header_line returns (HDR.TOTAL). The steering lookups "
     "after each section are membership-guarded (HDR.STEER-LOOKUP); nothing in the header loop's closure writes "
     "module-level state and the per-line dict is fresh (HDR.NO-STATE). Not decided: that junk lines which do parse "
     "leave genuine items unchanged (value-level).",
     COMMON_ASSUMPTIONS + ["the catalogue of partial operation kinds in rules/hdr_tolerant.py (operations outside it, "
                           "e.g. str methods, are total on str)"],
     "DESIGN.md section 4, C19",
     technique="error-discipline check: catch-all dominance + control dependence on the flag + taint/partial-operation "
               "scan over the resolved call closure",
     level_text="Static guarantee of the structural clauses 'every raising operation on header-line text is under the "
                "catch-all handler' and 'the handler honours the flag'; the value-level non-interference of junk "
                "lines that parse is not decided.")

prop("C16",
     [r_wrf.rule_frame, r_wrf.rule_standardize, r_wrf.rule_refresh, r_wrf.rule_determinism, r_wl.rule_measure, r_wl.rule_copy_vers,
      r_wrf.rule_snapshot, r_lp.rule_write_no_state, r_wrf.rule_frame_replace, r_wrf.rule_refresh_precision, r_wl.rule_ord_table],
     "Frame condition by may-write effect summaries: the set of locations writer.write / LASFile.write may modify "
     "through the LASFile (access paths with aliasing through loop variables and properties, propagated over the "
     "resolved call graph; SectionItems/HeaderItem hooks by contract) is a subset of the documented side effects - "
     "WRAP item (only under wrap is True/False, by control dependence), STRT/STOP/STEP value and unit, first curve "
     "unit, ~Well/~Parameter values whose right-hand side is standardize_value(item.value, item.unit) - and no "
     "module-level state (WR.FRAME); standardize_value returns only its argument, 0 or '' (WR.STANDARDIZE); the "
     "refresh call is controlled by `not array_equal(index_initial, index)` (True without initial index) OR "
     "`index_initial[-1] != STOP` with no tolerance function in its provenance, the refreshed values derive from "
     "index[0], index[-1], index[1]-index[0], and unit alignment precedes the first output on every path "
     "(WR.REFRESH); no clock/random/environment/identity/set-order source or mutated default argument in the "
     "writer's closure (WR.DETERMINISM); widths are measured after normalisation so a second write sees the same "
     "values as the first (WR.MEASURE); VERS is substituted only in a deep copy (WR.COPY-VERS). Not decided: byte-identity of two outputs and numerical truth of the "
     "written STRT/STOP/STEP (value level).",
     COMMON_ASSUMPTIONS + ["the SectionItems/HeaderItem mutation contract stated in sa/effects.py (verified against "
                           "las_items.py by the C13/C15 rules)", "external calls other than the catalogued numpy "
                           "in-place functions / container mutators do not mutate their arguments"],
     "DESIGN.md section 4, C16",
     technique="may-write effect summaries over access paths + control dependence / provenance of the refresh guard",
     level_text="Static frame guarantee: on the analysed source write() cannot reach a store to any LASFile location "
                "outside the documented list, and the refresh decision/values have the documented shape; "
                "byte-level determinism and numeric truth are not decided.")

prop("C15",
     [r_si.rule_accessors, r_si.rule_compare, r_si.rule_get_pure, r_si.rule_setvalue_only, r_si.rule_read_pure,
      r_si.rule_no_lookup_cache, r_si.rule_transforms_first, r_si.rule_setattr_exclusive],
     "Sibling cross-check of the SectionItems accessors: __contains__, __getitem__, __delitem__ and set_item relate "
     "the key to an item only through self.mnemonic_compare(key, item.mnemonic) (census of every comparison that "
     "mentions the key and an element), in a single front-to-back loop over self that leaves at the first match and "
     "performs the documented action on the matched position; integers/slices fall through to list methods under an "
     "isinstance guard and other misses raise KeyError; __getattr__/__setattr__/get/set_item_value decide membership "
     "with `in self` and fetch with self[key] without a comparison of their own (SI.ACCESSORS). mnemonic_compare is == "
     "on its two arguments, with the same case mapping on both sides exactly under mnemonic_transforms (SI.COMPARE). "
     "By effect summaries and control dependence get() modifies the section only by one append under `add`, never "
     "modifies or returns the default object (SI.GET-PURE); set_item_value writes only .value and __setitem__ "
     "dispatches on isinstance(newitem, HeaderItem) (SI.SETVALUE-ONLY). Not decided: agreement on every reachable "
     "state (needs C13's distinctness).",
     COMMON_ASSUMPTIONS, "DESIGN.md section 4, C15",
     technique="sibling cross-checking of lookup loops + comparison census + effect summaries",
     level_text="Static agreement of the lookup protocol across all accessors on the analysed source (structural "
                "necessary condition); behaviour on concrete section states is not executed.")

prop("C13",
     [r_si.rule_suffix_after_insert, r_si.rule_suffix_algo, r_si.rule_session_only, r_si.rule_unknown, r_si.rule_compare,
      r_si.rule_pk_state, r_wl.rule_orig_mnem, r_wl.rule_hdr_post, r_si.rule_list_primitives, r_si.rule_pk_rebuild,
      r_si.rule_pk_list_restore, r_si.rule_read_pure, r_si.rule_accessors, r_si.rule_transforms_first, r_lp.rule_pu_fresh],
     "Pairing rule on CFG paths: in every SectionItems method each placement of an item through list.append/insert/"
     "__setitem__/extend is followed on every path to a normal return by assign_duplicate_suffixes, called "
     "unconditionally with the new item's useful_mnemonic; LASFile.set_data re-assigns all suffixes after renaming "
     "(SI.SUFFIX-AFTER-INSERT). Shape of the renumbering: duplicates found only by mnemonic_compare on "
     "useful_mnemonic (no exact count/==), numbered ':%d' % (enumerate index + 1) through set_session_mnemonic_only, "
     "only when more than one match, no early return (SI.SUFFIX-ALGO). Disambiguation never stores to "
     "mnemonic/original_mnemonic inside SectionItems, the session setter writes only the session name, the rename hook "
     "and constructor keep the original verbatim, set_data's default names derive from original_mnemonic "
     "(SI.SESSION-ONLY); useful_mnemonic is 'UNKNOWN' iff blank (SI.UNKNOWN). Not decided: value-level collisions "
     "(a literal 'A:1' next to generated suffixes) and stale suffixes after deletion.",
     COMMON_ASSUMPTIONS, "DESIGN.md section 4, C13",
     technique="must-pass-through on CFG paths (placement -> renumbering) + algorithm shape + effect census",
     level_text="Static guarantee that no insertion path skips renumbering and that renumbering has the documented "
                "shape; distinctness for every multiset/history is not decided.")

prop("C17",
     [r_si.rule_pk_state, r_si.rule_pk_rebuild, r_si.rule_pk_ctor, r_si.rule_pk_independent, r_si.rule_pk_list_restore, r_si.rule_suffix_algo,
      r_wrf.rule_standardize, r_wrf.rule_frame, r_si.rule_deepcopy_memo],
     "State-coverage check: the census of attributes an item can hold (every self.X store and "
     "__setattr__('X') in HeaderItem/CurveItem) is compared with what HeaderItem.__reduce__ hands to the "
     "constructor and to __setstate__: argument 0 derives from self.original_mnemonic (not the session name), the "
     "other arguments from the like-named attributes in constructor order, the session mnemonic is carried "
     "unconditionally as state and restored through set_session_mnemonic_only without a condition (PK.STATE). Every "
     "other lasio class that defines a pickle/copy hook (__reduce__, __getstate__, __setstate__, __copy__, "
     "__deepcopy__) must carry its whole attribute census - no popped/filtered state, no 2-tuple reduce for a class "
     "with instance attributes, no `return self` (PK.REBUILD). Not decided: byte-identical write() output of copies.",
     COMMON_ASSUMPTIONS + ["default object/list pickling carries __dict__ and re-appends list items"],
     "DESIGN.md section 4, C17",
     technique="attribute census vs. reduce/state coverage with provenance of each constructor argument",
     level_text="Static completeness of the copied state on the analysed source; equality of copies on concrete "
                "objects is not executed.")

prop("C08",
     [r_num.rule_numlit, r_num.rule_finite_default, r_num.rule_exempt, r_num.rule_curve_raw, r_wl.rule_ord_bijection,
      r_num.rule_read_no_rewrite, r_sec.rule_route, r_num.rule_numlit_complete, r_data.rule_read_subs, r_lp.rule_pu_table_alias],
     "Guard-language analysis: every text->number constructor in SectionParser.num (int/float/np.int64/np.float64 on "
     "the argument) is reachable, from the entry or from any later re-definition of the value, only across the edge of "
     "a test on which `<regex>.fullmatch(value)` succeeded (truth table of the test over match/is-str atoms; CFG with "
     "exception edges), the recogniser is applied to the very value converted, and its language G - folded from the "
     "module constant, flags included - satisfies L(CORE) <= L(G) <= L(REF) by DFA product over a probe alphabet that "
     "contains underscores, blanks and non-ASCII digits (HDR.NUMLIT). Integer conversion is tried first, a float is "
     "returned only under isfinite, otherwise the text before comma substitution or the caller's default (HDR.FINITE). "
     "The API/UWI exemption in metadata() is decided by folding the controlling tests over 15 probe names incl. mixed "
     "case and near misses (HDR.EXEMPT). curves() cannot reach num(), params() converts keys['value'] unconditionally "
     "without going through metadata(), metadata() converts only the value field (HDR.CURVE-RAW). Not decided: numeric "
     "equality of the converted value and the 64-bit boundary (trusted to numpy).",
     COMMON_ASSUMPTIONS + ["re._parser is the definition of the regex dialect; languages are decided over the probe "
                           "alphabet of sa/rx.py", "np.int64/np.float64 convert every CORE literal correctly"],
     "DESIGN.md section 4, C08",
     technique="regex-language inclusion by DFA product + guard dominance on the CFG + truth-table folding of the exemption",
     level_text="Static guarantee for all strings over the probe alphabet that only decimal literals can reach a number "
                "constructor, and for all listed name spellings that API/UWI are exempt; numeric equality is trusted to numpy.")

prop("C05",
     [r_sec.rule_scan, r_sec.rule_convention, r_sec.rule_end_test, r_sec.rule_case, r_sec.rule_steer,
      r_sec.rule_title_pred, r_sec.rule_route, r_sec.rule_reseek, r_sec.rule_section_type, r_sec.rule_every_section,
      r_sec.rule_other_verbatim, r_hdrt.rule_no_state, r_hdrt.rule_every_line, r_sec.rule_line_model, r_data.rule_wrap_count],
     "Section-interval analysis. The title scan tests every line it reads (every readline() is assigned to the scanned "
     "variable, no nested consumption), advances its counter once per line and records a section start under the title "
     "predicate only (SEC.SCAN); all recorded section ends have the same offset from the boundary line (affine "
     "normalisation of the appended expressions: boundary-1, i.e. inclusive) and the fast engine's skip_header/max_rows "
     "are the matching affine forms first+1 / last-first (SEC.CONVENTION); each of the four section-bounded loops "
     "(header items, ~Other, column sniffer, reference engine) iterates the file object itself, advances its line "
     "counter exactly once per iteration and evaluates `counter == last` on every path back to the loop head, after the "
     "line was processed (CFG path queries; SEC.END-TEST); every predicate that classifies a title by one of the six "
     "documented letters folds to the same value for ~X and ~x over 63 probe-title pairs (SEC.CASE); the stores of the "
     "provisional VERS/WRAP/DLM resp. NULL are control-dependent on title tests that fold true exactly for letter V "
     "resp. W (SEC.STEER); every title test is startswith('~') on a fully stripped value (reaching definitions; "
     "SEC.TITLE-PRED); each parsed header section is stored into self.sections exactly once and, by truth table over "
     "probe titles, under the key that matches the kind SectionParser parses it as, custom sections under their own "
     "title (SEC.ROUTE); every section consumer in LASFile.read is entered only after a seek to a section offset "
     "(explicit-state search with string-constant path sensitivity; SEC.RESEEK). Not decided: that no line is dropped "
     "or duplicated for every permutation and size, seek/tell cookie correctness.",
     COMMON_ASSUMPTIONS + ["probe titles of rules/sec.py represent the title spellings (letter only, words, trailing text)"],
     "DESIGN.md section 4, C05 and shared rule group SEC",
     technique="CFG path queries on section-bounded loops + affine normalisation of line arithmetic + truth-table folding "
               "of title predicates + control dependence of steering stores",
     level_text="Static guarantee of the structural clauses (one interval convention, end test on every iteration, "
                "case-insensitive letters, steering only from ~V/~W, routing agrees with parsing, re-seek before every "
                "consumer) on the analysed source; attribution of every concrete line is not executed.")

prop("C06",
     [r_data.rule_null_guard, r_data.rule_null_table, r_data.rule_null_write, r_sec.rule_steer, r_data.rule_counter,
      r_data.rule_null_flat, r_num.rule_numlit, r_wl.rule_ord_table, r_wl.rule_key_norm, r_wl.rule_measure, r_lp.rule_views,
      r_wrf.rule_determinism, r_data.rule_engine_args_agree, r_data.rule_subs_source, r_si.rule_accessors],
     "Guard analysis of the NULL->NaN store in LASFile.read: the store `column[mask] = nan` must exist, its mask must be "
     "an exact `column == <value taken from ~Well NULL>` with no call and no tolerance/rounding function in its "
     "provenance (NULL.EXACT), and by control dependence it executes exactly under: the policy flag (third result of "
     "get_substitutions) AND a float-dtype test on the column AND a test on the column counter that folds to "
     "[F,T,T,T,T,T] over indexes 0..5 - any further conjunct is reported (NULL.GUARD); the counter is the disciplined "
     "0-based, once-per-column counter (DATA.COUNTER); folded tables: NULL_POLICIES['strict']==['NULL'], ['none']==[], "
     "NULL_SUBS['NULL']==[None]; the decoder raises the flag only for 'NULL' and drops None from the numeric list "
     "(NULL.TABLE); NULL is steered from ~W only (SEC.STEER); the writer's NaN branch emits str(well['NULL'].value) "
     "unformatted, so the reader's exact comparison finds it again (NULL.WRITE). Not decided: the iff over every cell of "
     "every file, behaviour of the other null policies.",
     COMMON_ASSUMPTIONS, "DESIGN.md section 4, C06",
     technique="control-dependence guard analysis + truth-table folding of the index guard + folded policy tables",
     level_text="Static guarantee that the only NULL->NaN path has exactly the documented guard and an exact comparison, "
                "and that writer and reader use the same marker; per-cell behaviour is not executed.")

prop("C07",
     [r_data.rule_wrap_count, r_data.rule_tokenizer, r_sec.rule_line_normalise, r_data.rule_counter, r_data.rule_reshape,
      r_data.rule_split, r_sec.rule_reseek, r_sec.rule_end_test, r_si.rule_compare, r_sec.rule_content_only_effects,
      r_data.rule_orient, r_sec.rule_case, r_sec.rule_steer, r_data.rule_engine_select, r_hdrt.rule_every_line,
      r_data.rule_null_table, r_data.rule_tokens_kept, r_num.rule_curve_raw, r_data.rule_subs_agree, r_data.rule_sample_window, r_data.rule_splitter_guard, r_data.rule_single_pass, r_data.rule_sniff_pure],
     "Column binding analysis: under the assumption WRAP == YES with declared curves, an explicit-state search of "
     "LASFile.read shows that the n_columns argument of the reference engine is never the per-line count sniffed by "
     "inspect_data_section, and all tests on the WRAP value fold to the same predicate over 9 probe values "
     "(DATA.WRAP-COUNT); the sniffer counts len(<splitter>(line)) with the very splitter object handed to the reference "
     "engine, produced by define_line_splitter(DLM) (DATA.TOKENIZER); sniffer and reference engine strip, then skip blank "
     "and comment lines before counting/parsing, and agree on what is skipped (LINE.NORMALISE); the assignment loop has a "
     "0-based counter advanced exactly once per column and reset per data section, stores column i into curves[i] under "
     "i < len(curves), appends CurveItem(data=column) otherwise, rebuilds its bookkeeping per section and NaN-fills "
     "unassigned curves with the common length (DATA.COUNTER); the reference engine reshapes row-major to (-1, n) and "
     "yields array[:, j] for ascending j, the fast engine passes unpack=True/loose=False and no row/column-dropping "
     "option (DATA.RESHAPE); comma splitting is positional and the splitter keys are the DLM vocabulary (DATA.SPLIT); "
     "every consumer is entered after a seek to its section (SEC.RESEEK). Not decided: cell-by-cell placement for all "
     "shapes, equal length when lines are ragged.",
     COMMON_ASSUMPTIONS, "DESIGN.md section 4, C07 and shared rule group DATA",
     technique="explicit-state path search under WRAP==YES + provenance of the token count + loop-counter discipline on the CFG",
     level_text="Static guarantee of the structural clauses that bind column j to curve j; placement of concrete cells is not executed.")

prop("C01",
     [r_data.rule_wrap_count, r_data.rule_wrap_tokens, r_data.rule_null_write, r_data.rule_null_guard, r_data.rule_reshape,
      r_data.rule_counter, r_data.rule_null_flat, r_data.rule_read_subs, r_si.rule_compare, r_num.rule_numlit,
      r_data.rule_data_format, r_data.rule_wrap_consistent, r_wl.rule_ord_table, r_wl.rule_key_norm, r_sec.rule_section_type,
      r_lp.rule_write_no_state, r_data.rule_options_readonly, r_sec.rule_scan, r_lp.rule_views, r_num.rule_numlit_complete,
      r_sec.rule_line_model, r_wl.rule_loop_closures, r_data.rule_engine_select, r_wrf.rule_frame],
     "Write->read pairing clauses: lasio's own wrapped output is re-read with the declared curve count, never the sniffed "
     "per-line count (DATA.WRAP-COUNT, explicit-state search under WRAP == YES); the writer's TextWrapper has "
     "width=data_width, break_long_words=False, break_on_hyphens=False, so lines break only at the blanks between values "
     "(WR.WRAP-TOKENS); NaN is written as str(well['NULL'].value) and read back through an exact, index-excluding, "
     "float-only mask (NULL.WRITE, NULL.GUARD, NULL.EXACT); tokens are reshaped row-major and bound to curves in order "
     "(DATA.RESHAPE, DATA.COUNTER). Not decided: the half-unit precision bound, preservation of every finite value, "
     "field-width/spacer combinations, engine equivalence (value level).",
     COMMON_ASSUMPTIONS, "DESIGN.md section 4, C01",
     technique="reader/writer pairing rules: explicit-state path search, constant keyword census, guard analysis",
     level_text="Static guarantee of the necessary structural clauses of the numeric round trip; the precision bound and "
                "value preservation are runtime quantities and are not decided.")

prop("C09",
     [r_data.rule_tokenizer, r_data.rule_trim, r_sec.rule_title_pred, r_sec.rule_end_test, r_sec.rule_line_normalise,
      r_sec.rule_reseek, r_data.rule_wrap_count, r_sec.rule_convention, r_data.rule_orient, r_sec.rule_content_only_effects,
      r_data.rule_read_subs, r_gr.rule_grammar, r_data.rule_engine_select, r_data.rule_tokens_kept, r_data.rule_split,
      r_data.rule_subs_source, r_data.rule_subs_agree, r_sec.rule_whitespace_sets, r_data.rule_sample_window, r_data.rule_splitter_guard, r_data.rule_fast_tokens],
     "Presentation-invariance clauses: the sniffer tokenises with the reader's DLM splitter (DATA.TOKENIZER); every "
     "splitter of the factory yields whitespace-free tokens - decided on the regex AST as a character set, or by strip() "
     "of each field - and comma splitting is positional (DATA.TRIM, DATA.SPLIT; COMMA and TAB trimming are recorded known "
     "findings D10); title tests are startswith('~') on fully stripped lines (SEC.TITLE-PRED); all four section-bounded "
     "loops iterate the file itself, count every physical line once and test for the section end on every iteration "
     "(SEC.END-TEST), so blank/comment lines anywhere cannot shift the window; the three classifying loops strip fully "
     "before the blank and comment tests, which precede parsing/counting, sniffer and reference engine agreeing "
     "(LINE.NORMALISE); consumers are re-positioned by seek before every use (SEC.RESEEK); re-wrapping cannot change the "
     "column count used for a wrapped file (DATA.WRAP-COUNT); one interval convention (SEC.CONVENTION). Not decided: "
     "equality of results under compositions of the transformations, CR/LF handling of the I/O layer, tell/seek cookies.",
     COMMON_ASSUMPTIONS, "DESIGN.md section 4, C09",
     technique="regex character-set analysis of the tokenisers + reaching-definition strip analysis + CFG path queries on the line loops",
     level_text="Static guarantee of the structural clauses that make reading independent of padding, blank/comment lines, "
                "section placement and wrapping width; equality of parsed results is not executed. Two recorded findings (D10).")

prop("C02",
     [r_sec.rule_convention, r_sec.rule_end_test, r_sec.rule_line_normalise, r_data.rule_orient, r_data.rule_reshape,
      r_sec.rule_reseek, r_sec.rule_scan, r_data.rule_null_flat, r_data.rule_split, r_sec.rule_content_only_effects,
      r_data.rule_read_subs, r_data.rule_wrap_count, r_data.rule_space_tokens, r_data.rule_fast_tokens, r_data.rule_null_table,
      r_data.rule_null_guard, r_data.rule_tokens_kept, r_sec.rule_line_model, r_data.rule_engine_args_agree, r_sec.rule_steer, r_data.rule_splitter_guard, r_data.rule_single_pass, r_lp.rule_pu_table_alias],
     "Engine-agreement clauses: both engines get the same line window - one interval convention for every section end and "
     "the matching affine skip_header = first+1 / max_rows = last-first after seek(0) in the fast engine (SEC.CONVENTION, "
     "SEC.SCAN); the reference engine and the sniffer count every physical line once, test for the section end on every "
     "iteration, and skip exactly blank and comment lines of the stripped text as genfromtxt does (SEC.END-TEST, "
     "LINE.NORMALISE); the fast engine's result is 2-D by construction or oriented from data-derived quantities only "
     "(DATA.ORIENT), it returns columns (unpack=True), falls back on non-numeric cells (loose=False) and uses no "
     "row/column-dropping option (DATA.RESHAPE); the fallback path re-seeks to the section (SEC.RESEEK). Not decided: "
     "bit-identical values, NaN positions, equality of parsing of numeric spellings (properties of genfromtxt/np.float64).",
     COMMON_ASSUMPTIONS + ["numpy.genfromtxt skips blank lines and '#' comments and counts max_rows in data rows"],
     "DESIGN.md section 4, C02",
     technique="affine normalisation of the line-window arithmetic + CFG path queries + provenance of the orientation predicate",
     level_text="Static guarantee that the two engines are handed the same window and the same line classification; "
                "value-level identity of the parsed numbers is not decided.")

prop("C04",
     [r_gr.rule_grammar, r_gr.rule_select, r_gr.rule_strip, r_hdrt.rule_no_state, r_num.rule_finite_default, r_sec.rule_route,
      r_sec.rule_title_pred, r_wl.rule_hdr_post, r_hdrt.rule_every_line, r_hdrt.rule_parser_stateless, r_num.rule_numlit],
     "Grammar summary by path enumeration: configure_metadata_patterns is enumerated over all consistent outcomes of its "
     "tests (same test text => same truth value), its pattern strings are constant-propagated, and each assembled "
     "pattern list is compared - as a canonical regex structure from re._parser: character classes as sets over a probe "
     "alphabet, repeat bounds, greedy/lazy, look-behind/look-ahead contents, group names, order - with the documented "
     "form for that outcome: standard `MNEM.UNIT VALUE : DESCR` (name up to first '.', unit = optional digits+one "
     "blank then non-blanks, greedy value up to the last ':'), ~Parameter (time-aware lazy value first, standard second), "
     "no period before the first colon (`NAME : VALUE`), no colon, and ~Curves mnemonics with dots (HDR.GRAMMAR). The "
     "selector tests are exactly the documented ones, with locals inlined - in particular the prefix before the FIRST "
     "colon and '..' before the LAST colon, ~Curves only (HDR.SELECT). read_header_line tries the patterns in order "
     "with re.match, stops at the first hit, strip()s every group and removes only leading/trailing dots from a unit "
     "ending in '.' (HDR.STRIP). Not decided: that the backtracking matcher yields the intended split for every "
     "conformant line (parse uniqueness), non-ASCII behaviour beyond the probe alphabet.",
     COMMON_ASSUMPTIONS + ["re._parser is the definition of the regex dialect", "the documented forms table in "
                           "rules/hdr_grammar.py (REF) is the oracle"],
     "DESIGN.md section 4, C04",
     technique="path enumeration + constant propagation of regex strings + structural (set-based) regex comparison with the documented grammar",
     level_text="Static equality of the assembled grammar with the documented forms for every selector outcome; the "
                "matcher's behaviour on concrete lines is not executed.")

prop("C03",
     [r_wl.rule_measure, r_wl.rule_order_key, r_wl.rule_orig_mnem, r_wl.rule_template, r_wl.rule_hdr_post,
      r_wl.rule_ord_bijection, r_wl.rule_key_norm, r_gr.rule_grammar, r_gr.rule_select, r_gr.rule_strip, r_wrf.rule_standardize,
      r_hdrt.rule_no_state, r_si.rule_pk_state, r_num.rule_finite_default, r_num.rule_curve_raw, r_hdrt.rule_steer_lookup,
      r_si.rule_pk_rebuild, r_si.rule_pk_list_restore, r_wrf.rule_frame, r_sec.rule_other_verbatim, r_hdrt.rule_every_line,
      r_wl.rule_ord_table, r_num.rule_numlit],
     "Header write->read pairing clauses. Stage order per section in writer.write by CFG reachability: unit alignment / "
     "refresh -> normalisation by standardize_value -> width measurement -> formatting, no later stage followed by an "
     "earlier one (WR.MEASURE); every order lookup in the writer (5 call sites) is keyed by provenance by the item's "
     "original_mnemonic, the name that is written (WR.ORDER-KEY, WR.ORIG-MNEM); the line template is "
     "`<mnem ljust>.<unit><blanks><rhs> : <tail>` (WR.TEMPLATE), which is what the reader's grammar - decided "
     "structurally for every selector outcome (HDR.GRAMMAR, HDR.SELECT, HDR.STRIP) - splits back into the same fields; "
     "for both order constants the writer's (before-colon, after-colon) field choice is inverted by the reader's "
     "assignment and both sides normalise the lookup key identically (ORD.BIJECTION, ORD.KEY-NORM); on the read side "
     "only the name is case-mapped, by exactly upper()/lower() under the matching option value, brackets are stripped "
     "from the unit only and the item is built as (name, unit, value, descr) (HDR.POST); standardize_value returns its "
     "argument, 0 or '' (WR.STANDARDIZE). Not decided: equality of the recovered strings/numbers for all conformant "
     "fields, ~Other text equality.",
     COMMON_ASSUMPTIONS, "DESIGN.md section 4, C03",
     technique="writer stage-order reachability + provenance of lookup keys + structural regex grammar + reader/writer field bijection",
     level_text="Static agreement of the writer's layout with the reader's grammar and order handling (necessary "
                "structural clauses); equality of concrete recovered fields is not executed.")

prop("C12",
     [r_wl.rule_ord_table, r_wl.rule_ord_bijection, r_wl.rule_key_norm, r_wl.rule_order_key, r_wl.rule_copy_vers,
      r_wl.rule_measure, r_wl.rule_template, r_num.rule_curve_raw, r_hdrt.rule_steer_lookup,
      r_data.rule_wrap_consistent, r_data.rule_wrap_tokens, r_data.rule_orient, r_data.rule_reshape, r_data.rule_wrap_count,
      r_lp.rule_write_no_state, r_si.rule_pk_rebuild, r_data.rule_options_readonly, r_wl.rule_version_consistency,
      r_data.rule_null_write, r_data.rule_data_format, r_data.rule_subs_source, r_hdrt.rule_parser_stateless, r_wl.rule_loop_closures, r_data.rule_engine_select, r_wrf.rule_frame],
     "Order-table agreement: the folded defaults.ORDER_DEFINITIONS has every version the writer admits, all four "
     "sections per version, well-formed (order, mnemonics) exceptions, 1.x ~Well = descr:value except STRT/STOP/STEP/NULL "
     "and 2.x/3.0 = value:descr throughout; reader (SectionParser.__init__) and writer (get_section_order_function) "
     "decode that same constant with the same convention ([0] default, [1:] pairs) and use the same section names "
     "(ORD.TABLE), so the order agrees for every mnemonic because there is one table; per order constant the writer's "
     "field placement is the inverse of the reader's assignment (ORD.BIJECTION); both sides apply the same key "
     "normalisation (ORD.KEY-NORM) and the writer keys every lookup by original_mnemonic (WR.ORDER-KEY); the VERS item "
     "for the requested version is stored only into deepcopy(las.version) (WR.COPY-VERS); widths are measured on final "
     "values (WR.MEASURE). Not decided: equality of content read from two differently written files.",
     COMMON_ASSUMPTIONS, "DESIGN.md section 4, C12",
     technique="constant-table folding + decoder sibling check + field bijection + provenance of lookup keys",
     level_text="Static agreement of reader and writer on the value/description order for every mnemonic and version; "
                "equality of re-read content is not executed.")

prop("C11",
     [r_wl.rule_template, r_wl.rule_measure, r_wl.rule_order_key, r_wl.rule_orig_mnem, r_si.rule_session_only,
      r_si.rule_pk_state, r_wrf.rule_refresh, r_wrf.rule_standardize, r_gr.rule_grammar, r_gr.rule_strip, r_wl.rule_key_norm,
      r_wl.rule_ord_bijection, r_data.rule_wrap_count, r_data.rule_wrap_tokens, r_data.rule_data_format, r_data.rule_wrap_consistent,
      r_lp.rule_write_no_state, r_si.rule_pk_rebuild, r_si.rule_pk_list_restore, r_num.rule_numlit, r_wl.rule_hdr_post,
      r_wl.rule_version_consistency, r_wl.rule_ord_table, r_wl.rule_loop_closures],
     "Necessary conditions of the read->write fixed point only: the writer's template puts '.' directly before the unit "
     "and ' : ' before the tail, which the reader's structurally decided grammar splits back (WR.TEMPLATE, HDR.GRAMMAR) - "
     "no fields migrating between unit, value and description requires also that widths are measured on final values and "
     "that unit alignment precedes normalisation, otherwise the header lags one cycle (WR.MEASURE) and that orders are "
     "looked up by the written name (WR.ORDER-KEY); no growing suffixes: the written mnemonic is original_mnemonic, "
     "disambiguation never touches it, and the deep copy of ~Version that is written is rebuilt from original mnemonics "
     "(WR.ORIG-MNEM, SI.SESSION-ONLY, PK.STATE); no drift of STRT/STOP/STEP: refresh decided exactly and taken from "
     "index[0], index[-1], index[1]-index[0]; normalisation idempotent (WR.REFRESH, WR.STANDARDIZE). Not decided: "
     "everything value-level (str() round trip of numbers, precision, the .1IN example).",
     COMMON_ASSUMPTIONS, "DESIGN.md section 4, C11",
     technique="reader/writer format agreement + writer stage-order reachability + state-coverage of the written copy",
     level_text="Thin: only structural necessary conditions of the fixed point are decided; equality after k cycles on "
                "arbitrary input is a runtime property and is not decided.")


def _to_csv_typestate(ctx):
    r_io.rule_typestate(ctx, only={"las.LASFile.to_csv"})


prop("C14",
     [r_lp.rule_views, r_lp.rule_route, r_lp.rule_rank, r_lp.rule_no_inplace, r_lp.rule_pu_fresh, r_si.rule_suffix_after_insert,
      r_si.rule_session_only, r_si.rule_compare, r_si.rule_accessors, r_lp.rule_no_alias_repeat, r_lp.rule_sentinel,
      r_lp.rule_rename_reset, r_si.rule_read_pure, r_si.rule_suffix_algo, r_si.rule_list_primitives, r_lp.rule_editors_pure,
      r_lp.rule_no_swallow],
     "List-model clauses: every view (keys, values, items, __getitem__, data, index, curvesdict, get_curve, df, "
     "stack_curves) reads curve state through self.curves only, and no LASFile attribute other than `sections` is ever "
     "assigned from curve data (attribute-store census with provenance; LF.VIEWS); the ten curve mutators change the list "
     "only through the SectionItems API of self.curves, insert_curve_item type-checks, item assignment / update / delete "
     "resolve names through keys() (exact session mnemonics, not the case-insensitive section lookup), and "
     "replace_curve_item = delete(ix)+insert(ix) normalises a negative ix first (LF.ROUTE); rank inference in set_data: "
     "no re-slicing lowers the rank of the data array before .shape[1] / data[:, i], truncation keeps the first "
     "len(curves) columns (LF.RANK); no LASFile method other than read() writes into a curve's array, so arrays shared "
     "between LASFiles or curves cannot be changed through another (effect paths ending in .data[*]; LF.NO-INPLACE); "
     "every LASFile has its own default sections (PU.FRESH); set_data renumbers all suffixes after renaming, names default "
     "to original mnemonics (SI.SUFFIX-AFTER-INSERT, SI.SESSION-ONLY). Not decided: model equivalence over histories.",
     COMMON_ASSUMPTIONS, "DESIGN.md section 4, C14",
     technique="attribute census + who-may-call routing rules + rank inference + effect paths on curve arrays",
     level_text="Static guarantee of the structural clauses of the list model; equivalence with a model under edit histories is not executed.")

prop("C10",
     [r_lp.rule_pu_global, r_lp.rule_pu_fresh, r_lp.rule_pu_channel, r_lp.rule_pu_table_alias, r_lp.rule_pu_rewind, r_hdrt.rule_no_state,
      r_lp.rule_pu_cookie, r_lp.rule_pu_channel_table, r_ex.rule_fresh_document, r_sec.rule_whitespace_sets],
     "Purity by effect summaries: none of the functions reachable from LASFile.__init__/read (resolved call graph incl. "
     "property/__setattr__ hooks; closure size recorded) writes a module-level object, a class attribute or a mutable "
     "default argument - an embedded impure function must be flagged on every run as positive control (PU.GLOBAL); "
     "get_default_items returns only objects built inside the call and LASFile.__init__ takes its sections from one "
     "unconditional call of it (PU.FRESH); the header-line parser keeps no state between lines (HDR.NO-STATE); the string "
     "channel wraps the caller's text unmodified in StringIO (no splitlines/join round trip), in open_with_codecs every "
     "assignment to `encoding` other than the BOM constant is control-dependent on `not encoding`, the BOM override is "
     "under a BOM test, and encoding/errors reach the final io.open unchanged with universal newlines (PU.CHANNEL). Not "
     "decided: equality across channels and codecs, BOM/chardet behaviour, non-ASCII preservation (runtime properties of "
     "the I/O stack).",
     COMMON_ASSUMPTIONS, "DESIGN.md section 4, C10",
     technique="may-write effect summaries over the read closure (who-may-write module state) + control dependence of encoding overrides",
     level_text="Static guarantee that a read cannot write shared state and that the channels differ only in how the "
                "text is obtained; codec behaviour is not decided.")

prop("C18",
     [r_ex.rule_json_total, r_ex.rule_json_nan, r_ex.rule_isnan_guard, r_ex.rule_depth, r_ex.rule_csv, r_ex.rule_xlsx,
      r_ex.rule_df, _to_csv_typestate, r_ex.rule_dictview, r_ex.rule_table_literals, r_ex.rule_fresh_document, r_lp.rule_views],
     "Export clauses: every CFG path through JSONEncoder.default returns a value, raises or delegates to the base class "
     "(no fall-through to null) and numpy integers are converted (EX.JSON-TOTAL); curve samples and header values are "
     "placed in the JSON document only through an unconditional comprehension whose element is the NaN->None map "
     "(EX.JSON-NAN); all isnan() calls on samples in las.py, excel.py and writer.py are protected by try/except TypeError "
     "(sibling agreement; EX.ISNAN-GUARD); depth_m and depth_ft branch on the same unit codes in the same order and their "
     "folded coefficients satisfy m = ft x 0.3048 (EX.DEPTH-ALGEBRA); each key of DEPTH_UNITS selects its own branch of "
     "_index_unit_contains (folded), every tabulated spelling - ASCII ones in any case - is recognised by the detection "
     "test in read() and none as another unit, conflicts leave the unit undefined (EX.DEPTH-TABLE); to_csv writes the "
     "mnemonic row under `mnemonics`, the unit row under `units` and units_loc=='line' independently of mnemonics, and one "
     "record self.data[i, :] per depth step (EX.CSV), closing the file it opened on every path (IO.TYPESTATE); the Excel "
     "header sheet lists ~Version, ~Well, ~Parameter, ~Curves with five fields per item and the Curves sheet writes '' "
     "for NaN (EX.XLSX-SECTIONS); df() uses self.data with session mnemonics and the first curve as index (EX.DF). Not "
     "decided: CSV/Excel/DataFrame cell equality, strictness of the JSON beyond NaN and dropped values.",
     COMMON_ASSUMPTIONS, "DESIGN.md section 4, C18",
     technique="all-paths return analysis + sanitiser-coverage census + truth-table folding of unit tables + control dependence of CSV rows",
     level_text="Static guarantee of the structural clauses of each export path; equality of exported cells with the curves is not executed.")


# clauses added after the second seeding round (DESIGN.md 7.3 / 7.4); appended to the explanations above
ALSO = {
    "C01": "Also: the numeric null list applied to the flat token array (every column, index included) is get_substitutions' "
           "result untouched - the header NULL never enters it (NULL.FLAT); the read substitutions have the documented "
           "patterns, so an exponent such as 2.5e-03 is never split (DATA.READ-SUBS); positional access to curves[i] is not "
           "captured by digit-string mnemonics because mnemonic_compare never coerces its arguments (SI.COMPARE).",
    "C02": "Also: NULL.FLAT (the reference engine must not null the index), DATA.SPLIT (SPACE/TAB splitting merges delimiter "
           "runs like genfromtxt does), LINE.EFFECTS (comment/blank lines have no effect on sniffing).",
    "C03": "Also: HDR.NO-STATE (no parsed field leaks from one header line to the next), PK.STATE (the deep copy of ~Version "
           "that is written keeps original mnemonics), HDR.FINITE / HDR.CURVE-RAW (non-numeric text is kept verbatim, the "
           "conversion follows the value/description order).",
    "C04": "Also: HDR.NO-STATE (the result dict of read_header_line is built per call; fields absent from a form are empty, not "
           "inherited from the previous line).",
    "C05": "Also: SEC.TYPE - determine_section_type folded over 21 probe titles (both cases of ~A/~O, custom titles containing "
           "'_data', LAS 3 data sections) must give the documented kind.",
    "C06": "Also: NULL.FLAT - the header NULL is never added to the flat numeric null list, which would null the index.",
    "C07": "Also: SEC.END-TEST (the sniffer counts physical lines), SI.COMPARE (curves[i] by position), LINE.EFFECTS.",
    "C08": "Also: ORD.BIJECTION and the extended HDR.CURVE-RAW - the value handed to HeaderItem passes through num(), the "
           "description never does, and no parsed field is rewritten before the value/description order is resolved.",
    "C09": "Also: DATA.ORIENT (a trailing blank line cannot transpose a single row), LINE.EFFECTS (hyphen census and token "
           "counts only for content lines), DATA.READ-SUBS.",
    "C11": "Also: HDR.STRIP (a unit loses all trailing dots at once, not one per cycle), ORD.KEY-NORM / ORD.BIJECTION (value and "
           "description cannot swap on every cycle), DATA.WRAP-COUNT / WR.WRAP-TOKENS (wrapped output re-reads with the same shape).",
    "C12": "Also: WR.TEMPLATE (both layouts write the fields verbatim - no `x or ''` that drops 0 in one layout only) and the "
           "extended HDR.CURVE-RAW (numbers are converted after the order swap, identically for 1.2 and 2.0 layouts).",
    "C13": "Also: SI.COMPARE, PK.STATE (copies keep original mnemonics, so blanks and duplicates survive the written deep copy), "
           "WR.ORIG-MNEM.",
    "C14": "Also: SI.COMPARE and SI.ACCESSORS - integer keys address positions (no coercion of keys to str), LF.ROUTE checks that "
           "a negative index is normalised before the deletion.",
    "C16": "Also: WR.SNAPSHOT - index_initial is an independent copy of the index (an alias would hide in-place edits); every path "
           "through update_units_from_index_curve aligns all three units; a two-sample index still gets its STEP.",
    "C17": "Also: PK.CTOR (constructors store their arguments verbatim - no dtype conversion on rebuild), PK.INDEPENDENT (a "
           "__deepcopy__ override must deep-copy its fields), SI.SUFFIX-ALGO (re-appending on deepcopy cannot strip or alter "
           "session names of unique items).",
    "C18": "Also: EX.JSON-KEYS (dictview is keyed by session mnemonics, one entry per item), EX.TABLE-LITERALS (no implicit "
           "string concatenation inside DEPTH_UNITS).",
    "C19": "Also: HDR.FLAG-FORWARD (read() forwards ignore_header_errors unchanged for every section) and SEC.END-TEST on the "
           "header loop (an error handler cannot advance the line counter, which would drop the last lines of the section).",
}
ALSO3 = {
    "C01": "Round 3: WR.DATA-FORMAT (a finite sample is fmt % sample, padded but never cut or rounded first; only data rows are "
           "wrapped) and WR.WRAP-CONSISTENT (rows are wrapped exactly under the `wrap` value the WRAP item is written from).",
    "C10": "Round 3: PU.TABLE-ALIAS (flow-insensitive may-alias of locals with the module-level tables of lasio/defaults.py in every "
           "function reachable from read(): no mutating call / += / subscript store on such a name), PU.REWIND (every peek on the "
           "handle is followed by seek(0) before the section scan, whose line numbers the fast engine interprets from the start "
           "of the file), PU.CHANNEL:always (the BOM override depends on the first bytes only, not on the encoding options).",
    "C11": "Round 3: WR.DATA-FORMAT and WR.WRAP-CONSISTENT as for C01 (a clipped index value makes STRT/STOP drift on the second cycle).",
    "C12": "Round 3: WR.WRAP-CONSISTENT, WR.WRAP-TOKENS, DATA.ORIENT, DATA.RESHAPE, DATA.WRAP-COUNT - wrap on/off selects different "
           "reader engines, which must agree on the shape for every writer output, and the WRAP item must state the physical layout.",
    "C13": "Round 3: HDR.POST (the builders hand the name read from the file to HeaderItem unchanged apart from the requested case mapping).",
    "C14": "Round 3: LF.NO-ALIAS-REPEAT (no `[CurveItem()] * n`: each slot has its own item), LF.SENTINEL (value arguments with a "
           "False = 'not given' default are tested by identity only, so '' and 0 can be stored), SI.RENAME-RESET (every assignment to "
           ".mnemonic records original_mnemonic and resets the session name on all CFG paths - set_data relies on it to drop stale suffixes).",
    "C15": "Round 3: the positional fall-through of __getitem__/__delitem__ is list access with the key itself under "
           "isinstance(key, (int, slice)); a position computed from the key (int(key)) is a violation.",
    "C16": "Round 3: the two refresh flags are computed, never defaulted inside an exception handler, and without float()/int() "
           "conversions of the STOP item.",
    "C17": "Round 3: PK.LIST-RESTORE - the generic protocols refill a list subclass through fixed methods of the copy "
           "(copy._reconstruct: append; unpickler protocol >= 2: extend); since SectionItems.append renumbers duplicate suffixes, "
           "__deepcopy__ must restore the items without it, and extend must not be overridden with a hook (D24 was found this way).",
    "C18": "Round 3: EX.DF also requires the all-or-nothing column conversion (astype inside except ValueError: pass; no to_numeric / "
           "errors='coerce'); EX.CSV also requires that the caller's mnemonics/units lists are never modified in place; EX.JSON-NAN is "
           "source-based over all methods of the encoder class; EX.DEPTH-ALGEBRA also understands a table of (code, to-metres, to-feet) rows.",
    "C20": "Round 3: a handle stored in a context-manager class of lasio's own is accepted when __exit__ closes exactly that attribute "
           "(flag-guarded when it may hold the caller's object) and every instantiation is the subject of a with-statement.",
}
ALSO4 = {
    "C01": "Round 4: ORD.TABLE / ORD.KEY-NORM (the NULL line of a 1.2 file keeps its value:descr order for every spelling the table "
           "lists), SEC.TYPE (every ~A... title is routed to the data reader), WR.NO-STATE (no mutable default argument or module state "
           "keeps a format from one write to the next), WR.OPTIONS-READONLY (options read by nested helpers are not re-bound in a loop).",
    "C02": "Round 4: DATA.FAST-TOKENS (genfromtxt gets no delimiter/usecols/missing-value/invalid_raise option), NULL.TABLE.",
    "C03": "Round 4: PK.REBUILD / PK.LIST-RESTORE (the deep copy of ~Version that is written keeps the section's instance state), "
           "ORD order source (the reader's value/description decision is the table lookup and nothing else).",
    "C04": "Round 4: HDR.POST (strip_brackets removes a *matching* pair only).",
    "C05": "Round 4: SEC.EVERY-SECTION (no section found by the scan is skipped on account of its line numbers), SEC.TITLE-PRED "
           "agreement (scanner and header loop both decide titles by startswith('~')), SEC.STEER over eight spellings per letter, "
           "SEC.ROUTE over LAS-3 style titles under versions 1.2/2.0/3.0, SEC.SCAN whole-line reads.",
    "C06": "Round 4: SEC.STEER over eight spellings per letter (underscore / digit / trailing text after the letter).",
    "C07": "Round 4: SEC.CASE, SEC.STEER (WRAP/DLM are picked up for every spelling of ~V), DATA.ENGINE-SELECT (WRAP YES forces the "
           "reference engine).",
    "C08": "Round 4: HDR.READ-NO-REWRITE (read() never rewrites a field of a parsed item), SEC.ROUTE (LAS-3 dispatch priority).",
    "C09": "Round 4: DATA.ENGINE-SELECT.",
    "C10": "Round 4: PU.COOKIE (section addresses are unmodified tell() cookies), PU.CHANNEL decision table (content-or-filename "
           "test folded over probe strings, two-line texts without final newline included).",
    "C11": "Round 4: PK.LIST-RESTORE state order, HDR.NUMLIT, HDR.POST, WR.NO-STATE.",
    "C12": "Round 4: WR.OPTIONS-READONLY, ORD order source, WR.NO-STATE.",
    "C13": "Round 4: SI.LIST-PRIMITIVES (only SectionItems methods use list.* primitives on a section).",
    "C14": "Round 4: LF.ROUTE positions (insert/delete hand the position to the list unchanged) and truncate (decided by the option "
           "alone), SI.SUFFIX-ALGO (the numbering loop skips nothing), SI.READ-PURE.",
    "C15": "Round 4: SI.READ-PURE (item / slice / attribute access, membership, keys ... reach no renaming hook).",
    "C16": "Round 4: WR.NO-STATE, WR.FRAME replace scope (set_item renumbers only the replaced name's group).",
    "C17": "Round 4: PK.LIST-RESTORE enumeration (`for item in self`, never by key) and state order, PK.STATE no stale state merged, "
           "PK.INDEPENDENT no shared __dict__.",
    "C18": "Round 4: XLSX per-sample NaN flag freshness (CFG with exception edges), first-curve participation in unit detection, "
           "EX.JSON-NAN sanitiser recognition.",
    "C19": "Round 4: SEC.SCAN (readline() without a size: a long junk line stays one line), data-dependent recursion in the closure "
           "of the header loop (RecursionError).",
    "C20": "Round 4: ExitStack registration (`stack.callback(h.close)`, `stack.enter_context(open(...))`) counts as release on every exit.",
}
ALSO6 = {
    "C01": "Round 6: WR.LATE-BINDING (no stored per-column formatter reads a loop variable late), DATA.COUNTER second bookkeeping form "
           "(NaN fill over range(<columns assigned>, <curves declared>)).",
    "C02": "Round 6: SEC.RESEEK position (seek() inside the data-section loop is not given the leaked offset of an earlier loop), "
           "DATA.ENGINE-ARGS (all call sites of the reference engine pass the same arguments).",
    "C03": "Round 6: ORD.TABLE content (upper- and lower-case spellings of the 1.x ~Well exceptions).",
    "C05": "Round 6: SEC.RESEEK position, SEC.ROUTE through routing helpers and class-level dispatch tables (LAS-3 priority, "
           "underscore guard confined to ~C/~P).",
    "C06": "Round 6: DATA.ENGINE-ARGS, NULL.GUARD flag carried by a sentinel value (`null if flag else None`).",
    "C07": "Round 6: DATA.SUBS-AGREE (value numbering on the CFG: the reference engine reads with the substitution list the sniffer "
           "last counted the columns with), HDR.CURVE-RAW (a ~Curves value never reaches num()).",
    "C09": "Round 6: DATA.SUBS-AGREE.",
    "C10": "Round 6: PU.GLOBAL class-level containers mutated through instances, PU.CHANNEL BOM sample independent of every option, "
           "EX.FRESH-DOC.",
    "C11": "Round 6: WR.LATE-BINDING.",
    "C12": "Round 6: WR.LATE-BINDING, DATA.WRAP-COUNT through column-count helpers (closures, tuple results).",
    "C13": "Round 6: SI.LIST-PRIMITIVES by-value remove/index/count (items are empty OrderedDicts: all equal), SI.ACCESSORS.",
    "C14": "Round 6: SI.LIST-PRIMITIVES by-value primitives, SI.SUFFIX-ALGO flat (non-recursive) form.",
    "C15": "Round 6: get(add=True) appends only on the not-in-self side of the membership test; a hand-written integer range test "
           "must be exactly -n <= key < n (also inside a private helper that is handed the key).",
    "C16": "Round 6: the refresh is not handed the data fmt; index[1] is not read before STRT/STOP are derived unless under the "
           "single-sample test.",
    "C18": "Round 6: EX.FRESH-DOC (no shallow copy of a nested shared template), EX.CSV header rows produced by generator methods.",
    "C19": "Round 6: SEC.TITLE-PRED (a title test written as a regular expression must mean white space then '~', and be applied with "
           "match()), HDR.GEN-RESUME (no loop asks a generator for more after catching an exception out of it).",
    "C20": "Round 6: a `yield` inside the with-statement that owns a handle; `with <handle> as f:` releases on every exit.",
}
ALSO7 = {
    "C01": "Round 7: DATA.ENGINE-SELECT decided by exploration when the selection is not an if-chain, and its flag-type clause (the WRAP "
           "flag keeps one type between the place that derives it and the places that test it). "
           "NULL.WRITE formatter slots.",
    "C02": "Round 7: SEC.STEER (the delimiter, WRAP and NULL that steer both engines come from ~Version / ~Well only: an item called DLM "
           "in another section must not make the two engines split the same lines differently). "
           "DATA.SPLIT empty-quoted (an empty quoted cell is one item of the SPACE/TAB item pattern). "
           "DATA.SPLIT-GUARD (no call of the line splitter is reachable with an empty line: the COMMA splitter returns an item for it).",
    "C09": "Round 7: LINE.WS-SET (a hand-written set of white-space characters used to strip or test lines contains what str.strip() removes). "
           "DATA.SPLIT empty-quoted. "
           "DATA.SPLIT-GUARD; DATA.SAMPLE-REL.",
    "C10": "Round 7: LINE.WS-SET; PU.CHANNEL bom-open (the handle that is read is opened with the encoding the BOM test chose).",
    "C12": "Round 7: DATA.ENGINE-SELECT flag-type; WR.DATA-FORMAT separator clause (a cell is padded to the field width plus the spacer). "
           "NULL.WRITE formatter slots.",
    "C13": "Round 7: SI.TRANSFORMS-FIRST (mnemonic transforms are fixed on the section before the first item is appended).",
    "C14": "Round 7: LF.NO-MODULE-STATE (the curve editors keep no state in module- or class-level containers).",
    "C15": "Round 7: SI.TRANSFORMS-FIRST; SI.SETATTR-EXCLUSIVE (__setattr__ either replaces an item or sets an attribute, never both).",
    "C16": "Round 7: the unit variable is not re-bound between the stores of WR.REFRESH; ORD.TABLE (the 1.x order decoder; the refreshed "
           "STRT/STOP/STEP lines are laid out through it). "
           "WR.REFRESH curve-without-unit.",
    "C17": "Round 7: PK.MEMO (__deepcopy__ hands its memo to every nested deepcopy).",
    "C18": "Round 7: EX.CSV (the csv.writer receives the caller's **kwargs).",
    "C20": "Round 7: IO.CALLER-OWNED also for `with <caller's object>:` (a with-statement closes what it is given).",
    "C04": "Round 8: HDR.NUMLIT (the VALUE field becomes a number only when the whole text is a numeric literal: `15_9` stays text).",
    "C05": "Round 7: SEC.STEER reset clause (no steering variable is set back to a constant while a section with another title letter is processed).",
    "C06": "Round 7: SEC.STEER reset clause; NULL.WRITE formatter slots (callables stored in one slot agree on NaN handling: no bare `<format>.__mod__` next to NaN-aware formatters).",
    "C07": "Round 7: SEC.STEER reset clause; DATA.SPLIT empty-quoted. "
           "DATA.SPLIT-GUARD; DATA.SAMPLE-REL (the sniffer's sample limit is tested on a count relative to the section start).",
    "C11": "Round 7: WR.REFRESH curve-without-unit (an index curve whose unit is empty receives the common unit: every test guarding the store lets that case through).",
    "C19": "Round 7: HDR.MNEM-TEST (a regular expression that identifies a mnemonic must match the whole of it: a bare word list applied with match() is a prefix test). "
           "DATA.SAMPLE-REL (junk lines in front of the data section must not change how many of its lines are sampled).",
}
ALSO8 = {
    "C01": "Round 8: DATA.RESHAPE accepts an explicit transpose only of a result genfromtxt itself made 2-D (ndmin=2).",
    "C08": "Round 8: a hand-written literal recogniser is evaluated by the constant folder on all strings of length <= 3 over 12 characters "
           "and 24 longer spellings and must lie between the core and the widest documented literal language.",
    "C10": "Round 8: PU.CHANNEL path-to-str (a pathlib.Path becomes the string of the same path: no lexical rewriting such as os.path.abspath).",
    "C14": "Round 8: LF.VIEWS tests for the attribute self.curves itself (a derived table such as self.curvesdict does not count).",
    "C18": "Round 8: EX.DF names default (the frame's own names are used when names is missing, None or empty).",
}
ALSO9 = {
    "C02": "Round 9: DATA.RESHAPE empty-by-count (a test that sets the column count to zero does not look at the values); DATA.SINGLE-PASS.",
    "C06": "Round 9: DATA.SUBS-SOURCE (the sniffer withdraws only the substitutions of the keys it lists, never the whole READ_SUBS table).",
    "C07": "Round 9: DATA.SINGLE-PASS (once an iterator has been made over the engine's result every consumer goes through it).",
    "C09": "Round 9: SEC.TITLE-PRED compares prefix languages with any remainder (newline included) and follows two-step match tests.",
    "C11": "Round 9: WR.WRAP-CONSISTENT written copy (a WRAP item stored on las.version after the deep copy was taken is stored on the copy too); "
           "WR.REFRESH layout-after-alignment.",
    "C13": "Round 9: PU.FRESH (an item belongs to one section: no element of a module-level table is stored in the default sections without a copy).",
    "C16": "Round 9: WR.REFRESH layout-after-alignment (no header section is iterated or handed to a formatter before the units are aligned).",
    "C19": "Round 9: HDR.TOTAL default-fields (fields the matching pattern does not capture default to text, not None).",
    "C20": "Round 9: release callables (`release = stream.close` / a no-op, called in finally) are lowered to the flag form before IO.TYPESTATE runs.",
}
ALSO10 = {
    "C01": "Round 10: WR.FRAME also counts for this property - a WRAP item that write() installs on the LASFile must be the file's own "
           "fresh object: an item shared between objects lets an in-place edit elsewhere make the written WRAP line disagree with "
           "the layout of the data rows under it.",
    "C02": "Round 10: PU.TABLE-ALIAS also counts for this property - the two engines receive NULL/READ substitutions built from the "
           "tables of lasio/defaults.py and only the reference engine applies all of them, so a table entry extended in place by "
           "one read makes the engines disagree in the next.",
    "C05": "Round 10: DATA.WRAP-COUNT also counts for this property - the column count that shapes the data rows is the number of "
           "curves after every header section has been parsed, so the rows are attributed to the same curves for any order of "
           "the sections (~A before ~Curve included).",
    "C06": "Round 10: SI.ACCESSORS also counts for this property - the NULL value is fetched by mnemonic lookup on ~Well "
           "(reader and writer), which must return the item currently stored (no lookup memo that a replacement does not invalidate).",
    "C09": "Round 10: DATA.FAST-TOKENS also counts for this property - the fast engine tokenises by runs of whitespace like the "
           "splitter (no delimiter option), so doubling a tab is presentation only for both engines.",
    "C20": "Round 10: `<object>.open(...)` (pathlib.Path.open, also on a call result such as ref.absolute().open(mode)) is an "
           "acquisition; a lasio helper that may return such a handle makes each of its call sites an acquisition site (may-summary, "
           "not specialised by the constant arguments of the call).",
    "C07": "Round 10: DATA.ARGS-READONLY (effect summaries: the sniffer and both engines modify none of their arguments apart from "
           "the file position - read() hands the same substitution list to the sniffer and to the engine).",
    "C08": "Round 10: PU.TABLE-ALIAS also counts for this property - num() applies the comma-decimal substitution it looks up in "
           "defaults.READ_SUBS, so a read-reachable function that extends an entry of that table in place (through an alias) changes "
           "which header values become numbers in every later read.",
    "C12": "Round 10: WR.FRAME also counts for this property - the two configurations are applied to the same LASFile one after the "
           "other, so anything write() leaves on the object or its sections (a width cache keyed by the items' text but not by the "
           "value/description layout) carries the first configuration into the second output.",
    "C14": "Round 10: LF.NO-SWALLOW (no editing method of LASFile / SectionItems catches the IndexError/KeyError of the collection "
           "primitive it calls and carries on: composite edits such as replace_curve_item = delete + insert rely on the raise as "
           "their bounds check); LF.RANK also requires that the column count which pads the curve list is taken from the array the "
           "columns are read from, not from its un-truncated precursor.",
    "C15": "Round 10: SI.GET-PURE commit-last (nothing that can raise follows the append in get(add=True): a failed get() leaves "
           "the section unchanged).",
    "C17": "Round 10: no copy.copy() in a __deepcopy__ override or the class helpers it calls; PK.INDEPENDENT is path-sensitive - every CFG path to a value-return of a __deepcopy__ override passes through "
           "the statement that deep-copies the instance __dict__ (an early exit returning a constructor-fresh object resets "
           "mnemonic_transforms); `return memo[...]` is the accepted early exit.",
    "C18": "Round 10: LF.VIEWS also counts for this property - to_csv, df and the JSON document read LASFile.data, which must be "
           "stacked from the curves' current arrays on every access (no cache attribute on the LASFile).",
}
for _pid, _txt in ALSO10.items():
    PROPS[_pid]["explanation"] += " " + _txt
for _pid, _txt in ALSO.items():
    PROPS[_pid]["explanation"] += " " + _txt
for _pid, _txt in ALSO6.items():
    PROPS[_pid]["explanation"] += " " + _txt
for _pid, _txt in ALSO7.items():
    PROPS[_pid]["explanation"] += " " + _txt
for _pid, _txt in ALSO8.items():
    PROPS[_pid]["explanation"] += " " + _txt
for _pid, _txt in ALSO9.items():
    PROPS[_pid]["explanation"] += " " + _txt
for _pid, _txt in ALSO4.items():
    PROPS[_pid]["explanation"] += " " + _txt
for _pid, _txt in ALSO3.items():
    PROPS[_pid]["explanation"] += " " + _txt
for _pid in PROPS:
    PROPS[_pid]["explanation"] += (" The source is analysed after a semantics-preserving normalisation (private literal constants "
                                   "propagated; private helpers, new helpers, local closures and one-loop generators expanded; guard clauses, found-flags, sentinels and local dict bundles canonicalised; explicit iterator loops re-sugared); where a construct a rule needs "
                                   "is not present in a form it understands the rule reports UNDECIDED (listed in this evidence) instead of a verdict.")
