"""Property -> rules registry.  Each rule is a function(ctx) recording instances on ctx."""
from rules import io as r_io

PROPS = {}


NOT_APPLICABLE = {}


def prop(pid, rules, explanation, assumptions, design_ref, technique, level_text, level_note=None):
    PROPS[pid] = {"rules": rules, "explanation": explanation, "assumptions": assumptions, "design_ref": design_ref,
                  "technique": technique, "level_text": level_text,
                  "level_note": level_note or "; ".join(assumptions)}


COMMON_ASSUMPTIONS = [
    "the engine's own CFG/exception model, reaching definitions and control dependence are correct (sa/)",
    "Python's documented semantics of try/finally/with, list and dict methods",
    "no monkey-patching, eval or dynamic attribute tricks beyond lasio's own __setattr__/__getattr__ hooks",
]

prop("C20",
     [r_io.rule_typestate, r_io.rule_caller_owned, r_io.rule_no_escape],
     "All-paths typestate analysis over per-function CFGs with exception edges (every statement that evaluates a "
     "call, subscript, attribute or arithmetic may raise; finally/with bodies duplicated per continuation): each "
     "file handle acquired by open/io.open/codecs.open, or returned by a lasio helper summarised as "
     "may-return-owned, is closed, released by `with`, or handed to the caller on every path to the normal and the "
     "exceptional exit (IO.TYPESTATE; boolean flags and hasattr(h,'close') guards resolved by explicit-state "
     "search); close() on a caller-supplied handle is unreachable in write()/to_csv()/writer.write() "
     "(IO.CALLER-OWNED); an owned handle is never stored in an attribute, global or container (IO.NO-ESCAPE). "
     "Decides the structural clause 'no path leaks / no caller handle closed', not behaviour under injected "
     "C-level I/O faults beyond 'every statement may raise'.",
     COMMON_ASSUMPTIONS + ["urlopen() responses are outside the property (paths only)"],
     "DESIGN.md section 4, C20",
     technique="all-paths typestate over a CFG with exception edges + may-return-owned call summaries",
     level_text="Static all-paths guarantee for the structural clause: on the analysed source no control-flow path "
                "(any statement may raise) leaves an opened handle unclosed, closes a caller-supplied handle or "
                "stores an owned handle; the behavioural whole (real I/O faults at the k-th operation) is implied "
                "only under the 'every statement may raise' abstraction.")
